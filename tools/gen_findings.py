#!/usr/bin/env python3
# Regenerates the "fixed:" section of /verif/known-findings.txt from the fix: commits of /repo (hashes are looked up by
# commit subject, so a history rewrite in /repo only needs a re-run). "finding:" lines are kept as they are.
import subprocess, re
table = [
 ("GetEntriesByDirectory selects exactly", "C06", "Index.GetEntriesByDirectory#post[sound]: unanchored regexp built from the name selected ad/x for d; regexp.MustCompile panicked on '('"),
 ("IsRegisteredAsDirectory finds", "C06", "Index.IsRegisteredAsDirectory#post[iff]: d/x not found next to d-old and d.x"),
 ("Sign.String formats negative", "C12", "Sign.String#post[format]: -05:00 printed as --500"),
 ("readSign keeps the sign", "C12", "bounded[Sign_String]: sign of a -HHMM offset dropped when read back"),
 ("NewRecord writes the reflog zone", "C11", "log.NewRecord#post[tz]: -03:30 written as -03-30"),
 ("reflog shows a record without", "C18", "Reflog.Show#bounds[String()[:7]]: record without commit id after branch -r"),
 ("reset refuses a reflog position", "C03", "resetCmd.RunE#pre@resetHead[hashlen]: reset onto a zero-id record wrote an empty branch file"),
 ("GetNode looks at every child", "C07", "GetNode#post[complete]/[sound]: binary search by plain name over tree order; file node matched a longer path"),
 ("DiffWithTree reports a staged file as new", "C07", "DiffWithTree#post[new]: staged file not reported when HEAD has a directory of that name"),
 ("GetObject rejects an object whose content", "C19", "GetObject#post[hash==requested]: checksum computed, never compared"),
 ("Object.Write does not dereference", "C18", "Object.Write#nil[f.IsDir]: nil FileInfo after a stat error other than not-exist"),
 ("a failed stat other than not-exist", "C18", "addCmd/rmCmd/hashObjectCmd/restoreCmd.RunE, FindGoitRoot#nil[f.IsDir]: nil FileInfo after ENOTDIR"),
 ("status, branch, switch -c and log", "C18", "statusCmd/branchCmd/switchCmd/logCmd.RunE#nil[client.Head.Commit...]: repository without commits"),
 ("Ignore.IsIncluded does not dereference", "C18", "Ignore.IsIncluded#nil[info.IsDir]: nil FileInfo after ENOTDIR"),
 ("NewCommit rejects a commit object", "C19", "GetObject#pre[hashlen] via a commit object without a tree line (slice of the empty id)"),
 ("reflog loading does not dereference", "C19", "Reflog.load#nil[head.Commit.Hash]: log present, HEAD commit missing"),
 ("Index.Reset sorts the entries", "C06", "Index.Reset#pre@Index.write[wfIndex]: entries installed in tree-walk order"),
 ("reset accepts exactly HEAD@", "C08", "resetCmd.RunE#bounds[sp[1:len(sp) - 1]]: 'HEAD@xHEAD@{1}' panicked; positions >= 10 refused; garbage accepted"),
 ("update-ref accepts exactly refs/heads", "C10", "updateRefCmd.RunE: 'xrefs/heads/zz/main' updated branch main"),
 ("update-ref refuses an id that is not", "C03", "updateRefCmd.RunE: blob or tree id written into a branch file"),
 ("branch names must be a single path", "C03", "Refs.AddBranch/RenameBranch disk frames need a valid name: branch '../../HEAD' overwrote .goit/HEAD"),
 ("walkTree keeps the whole entry name", "C05", "walkTree#bounds[lineSplit[1]] (empty tree) and bounded[writeTreeObject]: names cut at the first space"),
 ("reflog reads back entries whose message", "C11", "bounded[Reflog_load]: entries with ': ' or a tab in the message skipped"),
 ("a reflog record keeps only the first line", "C11", "bounded[Reflog_load]: multi-line message split the record; 'fail to read hash' on a later three-word line"),
 ("HEAD is split at its first", "C10", "NewHead: current branch whose name contains ': ' read back truncated"),
 ("reset --hard recreates missing directories", "C08", "bounded[resetWorkingTree]: 'no such file or directory' when a tracked directory had been removed"),
 ("the built-in ignore rule matches", "C17", "bounded[addCmd_RunE]/[statusCmd_RunE]: x.goit/ hidden by the unanchored built-in pattern"),
 ("add of a directory skips", "C17", "bounded[addCmd_RunE]: 'add .' staged .goit/HEAD, .goit/config and object files"),
 ("rm of a directory removes exactly", "C04", "bounded[rmCmd_RunE]: untracked files under the directory deleted; tracked-but-missing files left staged"),
 ("restore handles a directory argument", "C09", "bounded[restoreCmd_RunE]: existing directory walked on disk (deleted tracked files not restored, untracked file aborted, nested deleted directory refused)"),
 ("restore --staged of a path whose staged entry already", "C09", "bounded[restoreCmd_RunE]: unchanged entry made restore --staged fail"),
 ("config values keep everything", "C20", "bounded[configCmd_RunE]: value containing '=' truncated; Config.load#bounds[splitText[1]] and #mapnil"),
 ("add checks and looks up every argument under the name", "C17", "cmd.addCmd.RunE#pre@add[not-meta]#1 and bounded[addCmd_RunE]: 'add /abs/path/.goit/HEAD' and 'add ../<dir>/.goit/config' staged files inside .goit (the ignore check saw the spelling, the staging code the resolved path)"),
 ("add stores the blob before the index names it", "C16", "cmd.add#post[blob-before-index]: the index was written before the blob, so a failed object write left a staged path without its blob"),
 ("status compares every tracked file with its staged blob", "C13", "bounded[statusCmd_RunE]: an edit to a tracked file that an ignore pattern matches was not reported as modified (the comparison ran over the ignore-filtered walk)"),
 ("status reports a tracked path as deleted when a directory on the way", "C13", "bounded[statusCmd_RunE]: a tracked d/x was not reported as deleted after d had become a regular file (stat fails with ENOTDIR, which is not IsNotExist)"),
 ("paths are converted with filepath.ToSlash", "C04", "bounded[addCmd_RunE]: a file whose name contains a backslash was staged under the name with '/' instead (strings.ReplaceAll on every platform)"),
 ("commit does not take an unreadable branch file for a missing one", "C16", "cmd.commit#iofail: when the read of the current branch's file failed (EIO, EACCES ...) commit() went on as for the first commit: it wrote a commit without parent, moved the branch to it and reported success (shown on the binary with strace fault injection: rc=0, tip without parent line, log lists one commit)"),
 ("restore --staged of a file staged over a directory of HEAD", "C09", "cmd.restoreIndex#post[file-id]: with a file staged at a path where HEAD has a directory, restore --staged <path> staged the directory's TREE id under that path and left the directory's files unstaged (shown on the binary: ls-files -s then names a tree); found by the author of seed C03-6 on the unchanged tree"),
 ("restore checks every argument", "C18", "bounded[restoreCmd_RunE]: refused only after earlier arguments had been restored"),
]
log = subprocess.run(["git","-C","/repo","log","--format=%h %s"],capture_output=True,text=True).stdout.splitlines()
fixes = [l for l in log if re.match(r"^[0-9a-f]+ fix:", l)]
lines = []
used = set()
for l in reversed(fixes):
    h, subj = l.split(" ",1)
    hit = [t for t in table if t[0] in subj]
    if not hit:
        lines.append(f"fixed: property=C18 {h} {subj[5:90]}")
        continue
    used.add(hit[0][0])
    lines.append(f"fixed: property={hit[0][1]} {h} {hit[0][2]}")
p = "/verif/known-findings.txt"
old = open(p).read().splitlines()
keep = [l for l in old if not l.startswith("fixed:")]
open(p,"w").write("\n".join(keep).rstrip("\n") + "\n" + "\n".join(lines) + "\n")
print(len(lines), "fixed entries;", len([t for t in table if t[0] not in used]), "table rows unused")
# MANIFEST.hooks.source_commits: the guarded (comment-only, build tag verif) commits
import json
m = json.load(open("/verif/MANIFEST.json"))
m["hooks"]["source_commits"] = [l.split(" ",1)[0] for l in reversed(log) if re.match(r"^[0-9a-f]+ verif:", l)]
json.dump(m, open("/verif/MANIFEST.json","w"), indent=2)
open("/verif/MANIFEST.json","a").write("\n")
print(len(m["hooks"]["source_commits"]), "hook commits")
