#!/bin/bash
# usage: seedverify_sh.sh <ID> <patch.diff> <demo.sh> [extra props]
# like seedverify.sh, for demos that are shell scripts taking the path of a built goit binary:
# 1. scratch worktree: patch applies, builds, baseline tests pass; demo FAILS on the patched binary, PASSES on the unpatched one
# 2. applies the patch to /repo, runs the property's quick check(s), restores /repo
set -u
ID=$1; PATCH=$2; DEMO=$3
export GOFLAGS=-mod=mod GOPROXY=off GOSUMDB=off GOTOOLCHAIN=local
W=/var/tmp/sv_$ID
rm -rf $W; git -C /repo worktree prune; git -C /repo worktree add --detach $W HEAD -q || exit 2
cd $W
go build -o $W.orig . || exit 2
git apply $PATCH || { echo "PATCH DOES NOT APPLY"; exit 2; }
go build ./... && go build -o $W.new . || { echo "DOES NOT BUILD"; exit 2; }
if go test -vet=off -count=1 ./... >/dev/null 2>&1; then echo "baseline tests pass with patch"; else echo "BASELINE TESTS FAIL WITH PATCH"; fi
if sh $DEMO $W.new >/dev/null 2>&1; then echo "DEMO PASSES WITH PATCH (bad)"; else echo "demo fails with patch (good)"; fi
if sh $DEMO $W.orig >/dev/null 2>&1; then echo "demo passes without patch (good)"; else echo "DEMO FAILS WITHOUT PATCH (bad)"; fi
cd /; git -C /repo worktree remove --force $W; rm -f $W.orig $W.new
git -C /repo apply $PATCH || { echo "cannot apply to /repo"; exit 2; }
cd /verif
shift 3
for P in "$ID" "$@"; do
  out=$(bin/vf check $P 2>&1); rc=$?
  echo "--- vf check $P exit=$rc"; echo "$out" | grep -E "VIOLATION|^property=|KNOWN" | head -8
done
git -C /repo checkout -- .
git -C /repo status --short | head -3
