#!/bin/bash
# usage: seedverify.sh <ID> <patch.diff> <demo test file> <pkg dir rel> <go test -run pattern>
# 1. confirms in a scratch worktree: patch applies, builds, baseline tests pass, demo FAILS with patch and PASSES without
# 2. applies the patch to /repo, runs the property's quick check, and restores /repo
set -u
ID=$1; PATCH=$2; DEMO=$3; PKG=$4; RUN=$5
export GOFLAGS=-mod=mod GOPROXY=off GOSUMDB=off GOTOOLCHAIN=local
W=/var/tmp/sv_$ID
rm -rf $W; git -C /repo worktree prune; git -C /repo worktree add --detach $W HEAD -q || exit 2
cd $W
git apply $PATCH || { echo "PATCH DOES NOT APPLY"; exit 2; }
go build ./... || { echo "DOES NOT BUILD"; exit 2; }
if go test -vet=off -count=1 ./... >/dev/null 2>&1; then echo "baseline tests pass with patch"; else echo "BASELINE TESTS FAIL WITH PATCH"; fi
cp $DEMO $W/$PKG/
if go test -vet=off -count=1 -run "$RUN" ./$PKG/ >/dev/null 2>&1; then echo "DEMO PASSES WITH PATCH (bad)"; else echo "demo fails with patch (good)"; fi
git apply -R $PATCH
if go test -vet=off -count=1 -run "$RUN" ./$PKG/ >/dev/null 2>&1; then echo "demo passes without patch (good)"; else echo "DEMO FAILS WITHOUT PATCH (bad)"; fi
cd /; git -C /repo worktree remove --force $W
# now my checks
git -C /repo apply $PATCH || { echo "cannot apply to /repo"; exit 2; }
cd /verif
shift 5
for P in "$ID" "$@"; do
  out=$(bin/vf check $P 2>&1); rc=$?
  echo "--- vf check $P exit=$rc"; echo "$out" | grep -E "VIOLATION|^property=" | head -8
done
git -C /repo checkout -- . 
git -C /repo status --short | head -3
