#!/bin/bash
# needs a scratch worktree: git -C /repo worktree add --detach /var/tmp/repo_rf HEAD   (remove it afterwards)
# apply each refactor patch to the scratch worktree, run the relevant checks, revert
export GOFLAGS=-mod=mod GOPROXY=off GOSUMDB=off GOTOOLCHAIN=local VF_REPO=/var/tmp/repo_rf VF_NO_SELFTEST=1 VF_EVIDENCE_DIR=/var/tmp/rf_evidence 
declare -A PROPS
PROPS[1]="C02 C03 C04 C05 C06 C07 C08 C10 C18 C19"
PROPS[2]="C01 C02 C03 C05 C07 C08 C12 C18 C19"
PROPS[3]="C02 C03 C04 C05 C08 C09 C10 C14 C18"
PROPS[4]="C01 C02 C03 C05 C11 C13 C17 C18 C19 C20"
PROPS[5]="C01 C02 C03 C04 C05 C07 C10 C13 C16 C17 C18"
PROPS[6]="C01 C02 C03 C05 C08 C12 C14 C17 C18 C19"
PROPS[7]="C02 C03 C05 C06 C07 C11 C17 C18 C19 C20"
PROPS[8]="C02 C03 C04 C05 C08 C09 C10 C11 C16 C18"
PROPS[9]="C02 C03 C05 C07 C12 C14 C16 C18"
PROPS[10]="C02 C03 C10 C13 C16 C17 C18 C19 C20"
PROPS[11]="C01 C03 C05 C16 C18 C19"
PROPS[12]="C03 C04 C08 C09 C13 C16 C17 C18"
cd /verif
for a in ${AGENTS:-1 2 3 4 5 6 7 8 9 10 11 12}; do for k in 1 2 3 4 5; do
  P=/verif/quiet/set$a/refactor_$k.diff
  [ -f $P ] || continue
  git -C /var/tmp/repo_rf apply $P || { echo "== refac_$a/$k DOES NOT APPLY"; continue; }
  echo "== refac_$a/$k"
  for id in ${PROPS[$a]}; do
    out=$(/verif/bin/vf check $id 2>&1); rc=$?
    echo "$id rc=$rc $(echo "$out" | grep -E '^property=' | sed 's/property=[A-Z0-9]* tier=quick //')"
    echo "$out" | grep -E "VIOLATION|unbound|cannot|panic" | head -6
  done
  git -C /var/tmp/repo_rf checkout -- . ; git -C /var/tmp/repo_rf clean -fdq
done; done
echo FINISHED
