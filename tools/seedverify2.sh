#!/bin/bash
# usage: seedverify2.sh <ID> <patch.diff> <demo.sh | demo_test.go:pkgdir:RunPattern> [extra props]
# Everything happens in a scratch worktree of /repo's HEAD (/repo itself is not touched):
# 1. the patch applies, builds, the 147 tests pass; the demo FAILS with the patch and PASSES without it
# 2. the property's quick check(s) run on the patched scratch tree (VF_REPO), evidence and replays go to a scratch directory
set -u
ID=$1; PATCH=$2; DEMO=$3
export GOFLAGS=-mod=mod GOPROXY=off GOSUMDB=off GOTOOLCHAIN=local
W=/var/tmp/sv2_$ID
rm -rf $W $W.ev; git -C /repo worktree prune; git -C /repo worktree add --detach $W HEAD -q || exit 2
cd $W
rundemo() { # $1 = tree state label
  case "$DEMO" in
    *:*:*) f=${DEMO%%:*}; rest=${DEMO#*:}; pkg=${rest%%:*}; pat=${rest#*:}
           cp $f $W/$pkg/; go test -vet=off -count=1 -run "$pat" ./$pkg/ >/dev/null 2>&1; rc=$?; rm -f $W/$pkg/$(basename $f); return $rc;;
    *) go build -o $W.bin . && sh $DEMO $W.bin >/dev/null 2>&1;;
  esac
}
if rundemo orig; then echo "demo passes without patch (good)"; else echo "DEMO FAILS WITHOUT PATCH (bad)"; fi
git apply $PATCH || { echo "PATCH DOES NOT APPLY"; exit 2; }
go build ./... || { echo "DOES NOT BUILD"; exit 2; }
if go test -vet=off -count=1 ./... >/dev/null 2>&1; then echo "baseline tests pass with patch"; else echo "BASELINE TESTS FAIL WITH PATCH"; fi
if rundemo patched; then echo "DEMO PASSES WITH PATCH (bad)"; else echo "demo fails with patch (good)"; fi
rm -f $W.bin
cd /verif
shift 3
for P in "$ID" "$@"; do
  out=$(VF_REPO=$W VF_EVIDENCE_DIR=$W.ev VF_NO_SELFTEST=1 bin/vf check $P 2>&1); rc=$?
  echo "--- vf check $P exit=$rc"; echo "$out" | grep -E "VIOLATION|^property=|KNOWN|note:" | head -8
done
cd /; git -C /repo worktree remove --force $W
