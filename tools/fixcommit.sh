#!/bin/bash
# usage: fixcommit.sh "<commit message>"  — commits the working-tree change in /repo only if it builds and the baseline tests pass
set -e
cd /repo
if git status --short | grep -q contracts_verif; then echo "contract files are modified: commit them separately first (verif: ...)"; exit 1; fi
export GOFLAGS=-mod=mod GOPROXY=off GOSUMDB=off GOTOOLCHAIN=local
go build ./...
go vet -tags verif ./... >/dev/null 2>&1 || true
out=$(go test -vet=off -count=1 ./... 2>&1) || { echo "$out" | tail -30; echo "TESTS FAIL - not committed"; exit 1; }
n=$(go test -vet=off -count=1 -v ./... 2>&1 | grep -c -- "--- PASS" || true)
echo "tests pass ($n PASS lines)"
git add -A
git commit -qm "$1"
git log --oneline | head -1
