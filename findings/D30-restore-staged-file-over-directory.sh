#!/bin/bash
# D30 (C09/C03, fixed by /repo "fix: restore --staged of a file staged over a directory of HEAD unstages the file and
# brings the directory's files back"): with a file staged at a path where HEAD has a directory, `restore --staged <path>`
# staged the directory's TREE id under that path.
# usage: D30-restore-staged-file-over-directory.sh <goit binary>     exit 0: staging area = HEAD's snapshot, 1: defect shown
G=$(readlink -f "$1"); [ -x "$G" ] || { echo "usage: $0 <goit binary>"; exit 2; }
W=$(mktemp -d); trap 'rm -rf "$W"' EXIT
export HOME=$W/home; mkdir -p "$HOME" "$W/r"; cd "$W/r" || exit 2
"$G" init >/dev/null && "$G" config user.name N >/dev/null && "$G" config user.email n@e.xy >/dev/null || exit 2
mkdir a; echo x > a/x; "$G" add a/x; "$G" commit -m c1 >/dev/null || exit 2
want=$("$G" ls-files -s)
"$G" rm a/x >/dev/null; rmdir a 2>/dev/null; echo f > a; "$G" add a
"$G" restore --staged a || { echo "restore --staged a refused"; exit 1; }
got=$("$G" ls-files -s)
for id in $(echo "$got" | awk '{print $1}'); do
  [ "$("$G" cat-file -t "$id")" = blob ] || { echo "DEFECT: the staging area names a $("$G" cat-file -t "$id"): $got"; exit 1; }
done
[ "$got" = "$want" ] || { echo "DEFECT: staging area after restore --staged a: $got ; HEAD has: $want"; exit 1; }
echo "ok: the staging area equals HEAD's snapshot"; exit 0
