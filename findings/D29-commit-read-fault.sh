#!/bin/bash
# D29 (C16, fixed by /repo "fix: commit does not take an unreadable branch file for a missing one"):
# a read fault on the current branch's file inside commit() was taken for "no branch yet": a parentless commit was
# written, the branch moved to it and the command exited 0.
# usage: D29-commit-read-fault.sh <goit binary>     exit 0: the fault is reported (or never hit), 1: defect shown
# The fault is injected with strace at the third open of .goit/refs/heads/main by one thread (GOMAXPROCS=1: the two
# loads in init(), then commit()'s own read); the thread that performs it varies, hence a few tries.
G=$(readlink -f "$1"); [ -x "$G" ] || { echo "usage: $0 <goit binary>"; exit 2; }
W=$(mktemp -d); trap 'rm -rf "$W"' EXIT
export HOME=$W/home; mkdir -p "$HOME" "$W/r"; cd "$W/r" || exit 2
"$G" init >/dev/null && "$G" config user.name N >/dev/null && "$G" config user.email n@e.xy >/dev/null || exit 2
echo 1 > a; "$G" add a; "$G" commit -m c1 >/dev/null || exit 2
old=$(cat .goit/refs/heads/main); echo 2 > a; "$G" add a
for try in 1 2 3 4 5 6 7 8; do
  cp -r .goit "$W/bak"
  GOMAXPROCS=1 strace -f -o /dev/null -e trace=openat -P .goit/refs/heads/main -e inject=openat:error=EIO:when=3 "$G" commit -m c2 >/dev/null 2>&1; rc=$?
  tip=$(cat .goit/refs/heads/main)
  if [ "$rc" = 0 ] && [ "$tip" != "$old" ] && ! "$G" cat-file -p "$tip" | grep -q '^parent '; then
    echo "DEFECT: commit exited 0 and moved main from ${old:0:7} to ${tip:0:7}, a commit without parent"; exit 1
  fi
  rm -rf .goit; mv "$W/bak" .goit
done
echo "ok: no run reported success after the failed read"; exit 0
