#!/bin/sh
# Builds the verification-condition generator from /verif/vf (offline; x/tools v0.29.0 from the module cache).
set -e
cd "$(dirname "$0")/vf"
export GOFLAGS=-mod=mod GOPROXY=off GOSUMDB=off GOTOOLCHAIN=local
mkdir -p ../bin
go build -o ../bin/vf .
