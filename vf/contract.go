package main

// Contract files: /repo/<pkg>/contracts_verif.go (comment-only, build tag verif).
// Every line of interest starts with "//@". Grammar: DESIGN.md Appendix G (as built: see README in DESIGN §10).

import (
	"fmt"
	"go/ast"
	"strconv"
	"strings"
	"unicode"
)

// ---------- contract expression AST ----------

type Binder struct {
	Name string
	Type string // Go type text, resolved with types.Eval in the package scope
}

type CExpr struct {
	Op      string // "id","int","str","bool","nil","un","bin","sel","idx","slice","call","forall","exists","old","ite"
	Name    string // identifier, selector name, operator, callee name
	Args    []*CExpr
	Binders []Binder
	Trig    []*CExpr // optional trigger terms for quantifiers
	Src     string
}

func (e *CExpr) String() string {
	if e == nil {
		return "<nil>"
	}
	switch e.Op {
	case "id", "int", "bool", "nil":
		return e.Name
	case "str":
		return strconv.Quote(e.Name)
	case "un":
		return e.Name + e.Args[0].String()
	case "bin":
		return "(" + e.Args[0].String() + " " + e.Name + " " + e.Args[1].String() + ")"
	case "sel":
		return e.Args[0].String() + "." + e.Name
	case "idx":
		return e.Args[0].String() + "[" + e.Args[1].String() + "]"
	case "slice":
		lo, hi := "", ""
		if e.Args[1] != nil {
			lo = e.Args[1].String()
		}
		if e.Args[2] != nil {
			hi = e.Args[2].String()
		}
		return e.Args[0].String() + "[" + lo + ":" + hi + "]"
	case "call":
		var a []string
		for _, x := range e.Args {
			a = append(a, x.String())
		}
		return e.Name + "(" + strings.Join(a, ", ") + ")"
	case "old":
		return "old(" + e.Args[0].String() + ")"
	case "forall", "exists":
		var b []string
		for _, x := range e.Binders {
			b = append(b, x.Name+" "+x.Type)
		}
		return "(" + e.Op + " " + strings.Join(b, ", ") + " :: " + e.Args[0].String() + ")"
	}
	return "?"
}

// ---------- lexer ----------

type tok struct {
	k string // "id","int","str","op","eof"
	s string
}

func lexContract(src string) ([]tok, error) {
	var out []tok
	i := 0
	for i < len(src) {
		c := src[i]
		switch {
		case c == ' ' || c == '\t' || c == '\n' || c == '\r':
			i++
		case unicode.IsLetter(rune(c)) || c == '_':
			j := i
			for j < len(src) && (unicode.IsLetter(rune(src[j])) || unicode.IsDigit(rune(src[j])) || src[j] == '_') {
				j++
			}
			out = append(out, tok{"id", src[i:j]})
			i = j
		case unicode.IsDigit(rune(c)):
			j := i
			for j < len(src) && (unicode.IsDigit(rune(src[j])) || src[j] == 'x' || (src[j] >= 'a' && src[j] <= 'f') || (src[j] >= 'A' && src[j] <= 'F')) {
				j++
			}
			out = append(out, tok{"int", src[i:j]})
			i = j
		case c == '"':
			j := i + 1
			for j < len(src) && src[j] != '"' {
				if src[j] == '\\' {
					j++
				}
				j++
			}
			if j >= len(src) {
				return nil, fmt.Errorf("unterminated string in %q", src)
			}
			s, err := strconv.Unquote(src[i : j+1])
			if err != nil {
				return nil, fmt.Errorf("bad string %s: %v", src[i:j+1], err)
			}
			out = append(out, tok{"str", s})
			i = j + 1
		case c == '\'':
			// byte literal
			j := i + 1
			for j < len(src) && src[j] != '\'' {
				if src[j] == '\\' {
					j++
				}
				j++
			}
			v, _, _, err := strconv.UnquoteChar(src[i+1:j], '\'')
			if err != nil {
				return nil, fmt.Errorf("bad char literal in %q", src)
			}
			out = append(out, tok{"int", strconv.Itoa(int(v))})
			i = j + 1
		default:
			three := ""
			if i+4 <= len(src) {
				three = src[i : i+4]
			}
			if three == "<==>" {
				out = append(out, tok{"op", "<==>"})
				i += 4
				continue
			}
			if i+3 <= len(src) && src[i:i+3] == "==>" {
				out = append(out, tok{"op", "==>"})
				i += 3
				continue
			}
			if i+2 <= len(src) {
				two := src[i : i+2]
				switch two {
				case "==", "!=", "<=", ">=", "&&", "||", "::", ":=":
					out = append(out, tok{"op", two})
					i += 2
					continue
				}
			}
			switch c {
			case '(', ')', '[', ']', '{', '}', ',', '.', ':', '+', '-', '*', '/', '%', '<', '>', '!', '&':
				out = append(out, tok{"op", string(c)})
				i++
			default:
				return nil, fmt.Errorf("unexpected character %q in %q", c, src)
			}
		}
	}
	out = append(out, tok{"eof", ""})
	return out, nil
}

// ---------- parser ----------

type cparser struct {
	t   []tok
	p   int
	src string
}

func (p *cparser) peek() tok { return p.t[p.p] }
func (p *cparser) next() tok { t := p.t[p.p]; p.p++; return t }
func (p *cparser) isOp(s string) bool {
	return p.t[p.p].k == "op" && p.t[p.p].s == s
}
func (p *cparser) expectOp(s string) error {
	if !p.isOp(s) {
		return fmt.Errorf("expected %q at token %d (%v) in %q", s, p.p, p.peek(), p.src)
	}
	p.p++
	return nil
}

func parseCExpr(src string) (*CExpr, error) {
	t, err := lexContract(src)
	if err != nil {
		return nil, err
	}
	p := &cparser{t: t, src: src}
	e, err := p.parseImpl()
	if err != nil {
		return nil, err
	}
	if p.peek().k != "eof" {
		return nil, fmt.Errorf("trailing tokens at %d (%v) in %q", p.p, p.peek(), src)
	}
	e.Src = src
	return e, nil
}

func (p *cparser) parseImpl() (*CExpr, error) {
	l, err := p.parseOr()
	if err != nil {
		return nil, err
	}
	if p.isOp("==>") {
		p.next()
		r, err := p.parseImpl()
		if err != nil {
			return nil, err
		}
		return &CExpr{Op: "bin", Name: "==>", Args: []*CExpr{l, r}}, nil
	}
	if p.isOp("<==>") {
		p.next()
		r, err := p.parseImpl()
		if err != nil {
			return nil, err
		}
		return &CExpr{Op: "bin", Name: "<==>", Args: []*CExpr{l, r}}, nil
	}
	return l, nil
}

func (p *cparser) parseOr() (*CExpr, error) {
	l, err := p.parseAnd()
	if err != nil {
		return nil, err
	}
	for p.isOp("||") {
		p.next()
		r, err := p.parseAnd()
		if err != nil {
			return nil, err
		}
		l = &CExpr{Op: "bin", Name: "||", Args: []*CExpr{l, r}}
	}
	return l, nil
}

func (p *cparser) parseAnd() (*CExpr, error) {
	l, err := p.parseCmp()
	if err != nil {
		return nil, err
	}
	for p.isOp("&&") {
		p.next()
		r, err := p.parseCmp()
		if err != nil {
			return nil, err
		}
		l = &CExpr{Op: "bin", Name: "&&", Args: []*CExpr{l, r}}
	}
	return l, nil
}

func (p *cparser) parseCmp() (*CExpr, error) {
	l, err := p.parseAdd()
	if err != nil {
		return nil, err
	}
	// chained comparisons a <= b < c are conjunctions
	var res *CExpr
	for {
		t := p.peek()
		if t.k == "op" && (t.s == "==" || t.s == "!=" || t.s == "<" || t.s == "<=" || t.s == ">" || t.s == ">=") {
			p.next()
			r, err := p.parseAdd()
			if err != nil {
				return nil, err
			}
			c := &CExpr{Op: "bin", Name: t.s, Args: []*CExpr{l, r}}
			if res == nil {
				res = c
			} else {
				res = &CExpr{Op: "bin", Name: "&&", Args: []*CExpr{res, c}}
			}
			l = r
			continue
		}
		break
	}
	if res != nil {
		return res, nil
	}
	return l, nil
}

func (p *cparser) parseAdd() (*CExpr, error) {
	l, err := p.parseMul()
	if err != nil {
		return nil, err
	}
	for p.isOp("+") || p.isOp("-") {
		op := p.next().s
		r, err := p.parseMul()
		if err != nil {
			return nil, err
		}
		l = &CExpr{Op: "bin", Name: op, Args: []*CExpr{l, r}}
	}
	return l, nil
}

func (p *cparser) parseMul() (*CExpr, error) {
	l, err := p.parseUnary()
	if err != nil {
		return nil, err
	}
	for p.isOp("*") || p.isOp("/") || p.isOp("%") {
		op := p.next().s
		r, err := p.parseUnary()
		if err != nil {
			return nil, err
		}
		l = &CExpr{Op: "bin", Name: op, Args: []*CExpr{l, r}}
	}
	return l, nil
}

func (p *cparser) parseUnary() (*CExpr, error) {
	if p.isOp("!") || p.isOp("-") {
		op := p.next().s
		x, err := p.parseUnary()
		if err != nil {
			return nil, err
		}
		return &CExpr{Op: "un", Name: op, Args: []*CExpr{x}}, nil
	}
	return p.parsePostfix()
}

func (p *cparser) parsePostfix() (*CExpr, error) {
	x, err := p.parsePrimary()
	if err != nil {
		return nil, err
	}
	for {
		switch {
		case p.isOp("."):
			p.next()
			t := p.next()
			if t.k != "id" {
				return nil, fmt.Errorf("selector name expected in %q", p.src)
			}
			x = &CExpr{Op: "sel", Name: t.s, Args: []*CExpr{x}}
		case p.isOp("["):
			p.next()
			var lo, hi *CExpr
			if !p.isOp(":") {
				lo, err = p.parseImpl()
				if err != nil {
					return nil, err
				}
			}
			if p.isOp(":") {
				p.next()
				if !p.isOp("]") {
					hi, err = p.parseImpl()
					if err != nil {
						return nil, err
					}
				}
				if err := p.expectOp("]"); err != nil {
					return nil, err
				}
				x = &CExpr{Op: "slice", Args: []*CExpr{x, lo, hi}}
			} else {
				if err := p.expectOp("]"); err != nil {
					return nil, err
				}
				x = &CExpr{Op: "idx", Args: []*CExpr{x, lo}}
			}
		case p.isOp("("):
			// call: only on identifiers / selectors
			p.next()
			var args []*CExpr
			for !p.isOp(")") {
				a, err := p.parseImpl()
				if err != nil {
					return nil, err
				}
				args = append(args, a)
				if p.isOp(",") {
					p.next()
				}
			}
			p.next()
			name := ""
			switch x.Op {
			case "id":
				name = x.Name
			case "sel":
				// pkg.f(...) or recv.method(...)
				name = x.String()
			default:
				return nil, fmt.Errorf("call of non-name in %q", p.src)
			}
			if name == "old" && len(args) == 1 {
				x = &CExpr{Op: "old", Args: args}
			} else {
				x = &CExpr{Op: "call", Name: name, Args: args}
			}
		default:
			return x, nil
		}
	}
}

func (p *cparser) parseTypeText() string {
	// consume tokens until ',' '::' or '{' at depth 0
	var sb strings.Builder
	depth := 0
	for {
		t := p.peek()
		if t.k == "eof" {
			break
		}
		if t.k == "op" && depth == 0 && (t.s == "," || t.s == "::" || t.s == "{") {
			break
		}
		if t.k == "op" && (t.s == "[" || t.s == "(") {
			depth++
		}
		if t.k == "op" && (t.s == "]" || t.s == ")") {
			depth--
		}
		sb.WriteString(t.s)
		p.next()
	}
	return sb.String()
}

func (p *cparser) parsePrimary() (*CExpr, error) {
	t := p.next()
	switch t.k {
	case "int":
		return &CExpr{Op: "int", Name: t.s}, nil
	case "str":
		return &CExpr{Op: "str", Name: t.s}, nil
	case "id":
		switch t.s {
		case "true", "false":
			return &CExpr{Op: "bool", Name: t.s}, nil
		case "nil":
			return &CExpr{Op: "nil", Name: "nil"}, nil
		case "forall", "exists":
			q := &CExpr{Op: t.s}
			for {
				n := p.next()
				if n.k != "id" {
					return nil, fmt.Errorf("binder name expected in %q", p.src)
				}
				ty := p.parseTypeText()
				q.Binders = append(q.Binders, Binder{n.s, ty})
				if p.isOp(",") {
					p.next()
					continue
				}
				break
			}
			// binders declared as "i, j int": fill empty types from the right
			for i := len(q.Binders) - 2; i >= 0; i-- {
				if q.Binders[i].Type == "" {
					q.Binders[i].Type = q.Binders[i+1].Type
				}
			}
			if p.isOp("{") {
				p.next()
				for !p.isOp("}") {
					tr, err := p.parseImpl()
					if err != nil {
						return nil, err
					}
					q.Trig = append(q.Trig, tr)
					if p.isOp(",") {
						p.next()
					}
				}
				p.next()
			}
			if err := p.expectOp("::"); err != nil {
				return nil, err
			}
			body, err := p.parseImpl()
			if err != nil {
				return nil, err
			}
			q.Args = []*CExpr{body}
			return q, nil
		}
		return &CExpr{Op: "id", Name: t.s}, nil
	case "op":
		if t.s == "(" {
			e, err := p.parseImpl()
			if err != nil {
				return nil, err
			}
			if err := p.expectOp(")"); err != nil {
				return nil, err
			}
			return e, nil
		}
	}
	return nil, fmt.Errorf("unexpected token %v in %q", t, p.src)
}

// ---------- contract file structure ----------

type Clause struct {
	Kind  string // requires, ensures, invariant, decreases, modifies
	Label string
	Tags  []string
	Expr  *CExpr   // requires/ensures/invariant
	Exprs []*CExpr // decreases (lexicographic)
	Mods  []string // modifies: field keys "Index.Entries", "fs", "*"
	Src   string
}

type LoopSpec struct {
	Invariants []*Clause
	Decreases  *Clause
}

type FuncSpec struct {
	Key      string // "Index.GetEntry", "getEntriesFromTree", "addCmd.RunE"
	Pkg      string
	Returns  []string
	Requires []*Clause
	Ensures  []*Clause
	Modifies []string
	HasMods  bool
	Reveals  []string // labels of opaque axioms (definitions) this function's proof may use
	Decr     *Clause
	Loops    map[int]*LoopSpec
	AllInv   []*Clause // invariants of every loop of the function ("invariant-all")
	Asserts  []*AssertSpec // "after <callee>[#k]: assert ...": proof steps (checked, then available to what follows)
	Pure     bool
	Trusted  bool // contract assumed, body not verified (listed in evidence)
	File     string
}

// AssertSpec: an assertion at the statement that holds the k-th call (0-based, in program order) of a callee named by
// its function or method name.
type AssertSpec struct {
	Callee string
	Ord    int
	Clause *Clause
}

type Pred struct {
	Name   string
	Params []string
	Body   *CExpr
}

type PkgSpec struct {
	Funcs         map[string]*FuncSpec
	Preds         map[string]*Pred
	Regexps       map[string][]*CExpr // global regexp variable -> assumed facts over s and match(s)
	Ghosts        map[string]*Ghost
	PureFuncTypes map[string]bool
	Axioms        []*Axiom
}

// Ghost: an uninterpreted specification function that may read heap fields (passed as extra arguments).
type Ghost struct {
	Name   string
	Params []Binder
	Result string   // Go type text
	Reads  []string // heap keys as written ("Node.Name")
}

type Axiom struct {
	Label  string
	Expr   *CExpr
	Src    string
	Opaque bool     // a definition that is hidden unless a function lists it under "reveals" (lemmas stated after it see it)
	Lemma  bool     // proved once (obligation <pkg>.lemmas#lemma[label]) from what precedes it, then used like an axiom
	Tags   []string // properties a lemma serves
}

var clauseKeywords = map[string]bool{"func": true, "pred": true, "returns": true, "requires": true, "ensures": true,
	"invariant": true, "decreases": true, "modifies": true, "loop": true, "pure": true, "trusted": true, "end": true, "regexp": true, "ghost": true, "axiom": true, "opaque-axiom": true, "reveals": true, "lemma": true, "functype": true, "invariant-all": true, "after": true}

// collectContractLines extracts the "//@" lines of a file, joining continuation lines.
func collectContractLines(f *ast.File) []string {
	var raw []string
	for _, cg := range f.Comments {
		for _, c := range cg.List {
			if strings.HasPrefix(c.Text, "//@") {
				raw = append(raw, strings.TrimSpace(strings.TrimPrefix(c.Text, "//@")))
			}
		}
	}
	var out []string
	for _, l := range raw {
		if l == "" {
			continue
		}
		first := l
		if i := strings.IndexAny(l, " \t:("); i >= 0 {
			first = l[:i]
		}
		if clauseKeywords[first] || len(out) == 0 {
			out = append(out, l)
		} else {
			out[len(out)-1] += " " + l
		}
	}
	return out
}

func parseLabelTags(rest string) (label string, tags []string, expr string) {
	rest = strings.TrimSpace(rest)
	if strings.HasPrefix(rest, "[") {
		if i := strings.Index(rest, "]"); i > 0 {
			label = strings.TrimSpace(rest[1:i])
			rest = strings.TrimSpace(rest[i+1:])
		}
	}
	if strings.HasPrefix(rest, "{") {
		if i := strings.Index(rest, "}"); i > 0 {
			inner := rest[1:i]
			ok := true
			var tg []string
			for _, t := range strings.Split(inner, ",") {
				t = strings.TrimSpace(t)
				if len(t) < 3 || t[0] != 'C' {
					ok = false
					break
				}
				tg = append(tg, t)
			}
			if ok {
				tags = tg
				rest = strings.TrimSpace(rest[i+1:])
			}
		}
	}
	return label, tags, rest
}

func parsePkgSpec(pkgName string, files []*ast.File, fileNames []string) (*PkgSpec, error) {
	ps := &PkgSpec{Funcs: map[string]*FuncSpec{}, Preds: map[string]*Pred{}, Regexps: map[string][]*CExpr{}, Ghosts: map[string]*Ghost{}, PureFuncTypes: map[string]bool{}}
	for fi, f := range files {
		lines := collectContractLines(f)
		var cur *FuncSpec
		curLoop := -1
		for _, l := range lines {
			kw := l
			rest := ""
			if i := strings.IndexAny(l, " \t"); i >= 0 {
				kw = l[:i]
				rest = strings.TrimSpace(l[i+1:])
			}
			switch {
			case kw == "pred":
				// pred name(a, b) := expr
				i := strings.Index(rest, "(")
				j := strings.Index(rest, ")")
				k := strings.Index(rest, ":=")
				if i < 0 || j < i || k < j {
					return nil, fmt.Errorf("%s: bad pred: %s", fileNames[fi], l)
				}
				name := strings.TrimSpace(rest[:i])
				var params []string
				for _, p := range strings.Split(rest[i+1:j], ",") {
					p = strings.TrimSpace(p)
					if p == "" {
						continue
					}
					// allow "idx *Index": take the first word
					params = append(params, strings.Fields(p)[0])
				}
				body, err := parseCExpr(rest[k+2:])
				if err != nil {
					return nil, fmt.Errorf("%s: pred %s: %v", fileNames[fi], name, err)
				}
				ps.Preds[name] = &Pred{Name: name, Params: params, Body: body}
				cur = nil
			case kw == "functype":
				f := strings.Fields(rest)
				if len(f) == 2 && f[1] == "pure" {
					ps.PureFuncTypes[f[0]] = true
				} else {
					return nil, fmt.Errorf("%s: bad functype line: %s", fileNames[fi], l)
				}
				cur = nil
			case kw == "ghost":
				// ghost name(a T, b U) R reads X.f, Y.g
				i := strings.Index(rest, "(")
				j := strings.Index(rest, ")")
				if i < 0 || j < i {
					return nil, fmt.Errorf("%s: bad ghost: %s", fileNames[fi], l)
				}
				gh := &Ghost{Name: strings.TrimSpace(rest[:i])}
				for _, p := range splitTopLevel(rest[i+1:j], ',') {
					p = strings.TrimSpace(p)
					if p == "" {
						continue
					}
					f := strings.SplitN(p, " ", 2)
					if len(f) != 2 {
						return nil, fmt.Errorf("%s: ghost %s: parameter needs a type: %s", fileNames[fi], gh.Name, p)
					}
					gh.Params = append(gh.Params, Binder{f[0], strings.TrimSpace(f[1])})
				}
				tail := strings.TrimSpace(rest[j+1:])
				if k := strings.Index(tail, "reads"); k >= 0 {
					for _, r := range strings.Split(tail[k+5:], ",") {
						if r = strings.TrimSpace(r); r != "" {
							gh.Reads = append(gh.Reads, r)
						}
					}
					tail = strings.TrimSpace(tail[:k])
				}
				gh.Result = tail
				ps.Ghosts[gh.Name] = gh
				cur = nil
			case kw == "reveals":
				if cur == nil {
					return nil, fmt.Errorf("%s: reveals outside a func block", fileNames[fi])
				}
				for _, r := range strings.Split(rest, ",") {
					if r = strings.TrimSpace(r); r != "" {
						cur.Reveals = append(cur.Reveals, r)
					}
				}
			case kw == "axiom" || kw == "lemma" || kw == "opaque-axiom":
				label, tags, es := parseLabelTags(rest)
				e, err := parseCExpr(es)
				if err != nil {
					return nil, fmt.Errorf("%s: %s %s: %v", fileNames[fi], kw, label, err)
				}
				ps.Axioms = append(ps.Axioms, &Axiom{Label: label, Expr: e, Src: es, Lemma: kw == "lemma", Opaque: kw == "opaque-axiom", Tags: tags})
				cur = nil
			case kw == "regexp":
				// regexp sha1Regexp: match(s) ==> len(s) >= 40
				i := strings.Index(rest, ":")
				if i < 0 {
					return nil, fmt.Errorf("%s: bad regexp line: %s", fileNames[fi], l)
				}
				name := strings.TrimSpace(rest[:i])
				e, err := parseCExpr(rest[i+1:])
				if err != nil {
					return nil, fmt.Errorf("%s: regexp %s: %v", fileNames[fi], name, err)
				}
				ps.Regexps[name] = append(ps.Regexps[name], e)
				cur = nil
			case kw == "func":
				key := strings.TrimSpace(rest)
				cur = &FuncSpec{Key: key, Pkg: pkgName, Loops: map[int]*LoopSpec{}, File: fileNames[fi]}
				if _, dup := ps.Funcs[key]; dup {
					return nil, fmt.Errorf("%s: duplicate contract for %s", fileNames[fi], key)
				}
				ps.Funcs[key] = cur
				curLoop = -1
			case cur == nil:
				return nil, fmt.Errorf("%s: clause outside func: %s", fileNames[fi], l)
			case kw == "returns":
				for _, r := range strings.Split(rest, ",") {
					cur.Returns = append(cur.Returns, strings.TrimSpace(r))
				}
			case kw == "pure":
				cur.Pure = true
			case kw == "trusted":
				cur.Trusted = true
			case strings.HasPrefix(kw, "loop"):
				// "loop 0:" or "loop 0"
				num := strings.TrimSuffix(strings.TrimSpace(strings.TrimPrefix(l, "loop")), ":")
				n, err := strconv.Atoi(strings.TrimSpace(num))
				if err != nil {
					return nil, fmt.Errorf("%s: bad loop header: %s", fileNames[fi], l)
				}
				curLoop = n
				cur.Loops[n] = &LoopSpec{}
			case kw == "end":
				curLoop = -1
			case kw == "modifies":
				cur.HasMods = true
				for _, m := range strings.Split(rest, ",") {
					m = strings.TrimSpace(m)
					if m != "" && m != "nothing" {
						cur.Modifies = append(cur.Modifies, m)
					}
				}
			case kw == "after":
				// after <callee>[#k]: assert [label] {tags} expr
				i := strings.Index(rest, ":")
				if i < 0 || !strings.HasPrefix(strings.TrimSpace(rest[i+1:]), "assert") {
					return nil, fmt.Errorf("%s: %s: expected 'after <callee>[#k]: assert ...'", fileNames[fi], cur.Key)
				}
				callee, ord := strings.TrimSpace(rest[:i]), 0
				if j := strings.Index(callee, "#"); j >= 0 {
					ord, _ = strconv.Atoi(callee[j+1:])
					callee = callee[:j]
				}
				label, tags, es := parseLabelTags(strings.TrimSpace(strings.TrimPrefix(strings.TrimSpace(rest[i+1:]), "assert")))
				e, err := parseCExpr(es)
				if err != nil {
					return nil, fmt.Errorf("%s: %s assert: %v", fileNames[fi], cur.Key, err)
				}
				cur.Asserts = append(cur.Asserts, &AssertSpec{Callee: callee, Ord: ord, Clause: &Clause{Kind: "assert", Label: label, Tags: tags, Expr: e, Src: es}})
			case kw == "invariant-all":
				label, tags, es := parseLabelTags(rest)
				e, err := parseCExpr(es)
				if err != nil {
					return nil, fmt.Errorf("%s: %s invariant-all: %v", fileNames[fi], cur.Key, err)
				}
				cur.AllInv = append(cur.AllInv, &Clause{Kind: "invariant", Label: label, Tags: tags, Expr: e, Src: es})
			case kw == "requires" || kw == "ensures" || kw == "invariant":
				label, tags, es := parseLabelTags(rest)
				e, err := parseCExpr(es)
				if err != nil {
					return nil, fmt.Errorf("%s: %s %s: %v", fileNames[fi], cur.Key, kw, err)
				}
				c := &Clause{Kind: kw, Label: label, Tags: tags, Expr: e, Src: es}
				switch kw {
				case "requires":
					cur.Requires = append(cur.Requires, c)
				case "ensures":
					cur.Ensures = append(cur.Ensures, c)
				case "invariant":
					if curLoop < 0 {
						return nil, fmt.Errorf("%s: invariant outside loop in %s", fileNames[fi], cur.Key)
					}
					cur.Loops[curLoop].Invariants = append(cur.Loops[curLoop].Invariants, c)
				}
			case kw == "decreases":
				_, tags, es := parseLabelTags(rest)
				c := &Clause{Kind: kw, Tags: tags, Src: es}
				for _, part := range splitTopLevel(es, ',') {
					e, err := parseCExpr(part)
					if err != nil {
						return nil, fmt.Errorf("%s: %s decreases: %v", fileNames[fi], cur.Key, err)
					}
					c.Exprs = append(c.Exprs, e)
				}
				if curLoop >= 0 {
					cur.Loops[curLoop].Decreases = c
				} else {
					cur.Decr = c
				}
			default:
				return nil, fmt.Errorf("%s: unknown clause: %s", fileNames[fi], l)
			}
		}
	}
	return ps, nil
}

func splitTopLevel(s string, sep byte) []string {
	var out []string
	depth := 0
	start := 0
	for i := 0; i < len(s); i++ {
		switch s[i] {
		case '(', '[', '{':
			depth++
		case ')', ']', '}':
			depth--
		default:
			if s[i] == sep && depth == 0 {
				out = append(out, s[start:i])
				start = i + 1
			}
		}
	}
	out = append(out, s[start:])
	return out
}
