package main

import (
	"fmt"
	"go/ast"
	"go/constant"
	"go/types"
	"strings"
)

// Assumed contracts of os, path/filepath, io, bytes, bufio, compress/zlib, crypto/sha1 over the ghost state
// of ghost.go. "nofault" mode: an operation fails only for the reason named in its model, except that
// creations and writes may always fail (so nothing proved depends on their success).

func init() {
	m := map[string]libModel{
		"path/filepath.Join":           libJoin,
		"os.ReadFile":                  libReadFile,
		"os.Create":                    libCreate,
		"os.OpenFile":                  libOpenFile,
		"os.Open":                      libOpen,
		"(*os.File).Write":             libFileWrite,
		"(*os.File).WriteString":       libFileWrite,
		"os.Stat":                      libStatFS,
		"os.Lstat":                     libStatFS,
		"os.Mkdir":                     libMkdir,
		"os.MkdirAll":                  libMkdirAll,
		"os.Remove":                    libRemove,
		"os.Rename":                    libRename,
		"os.ReadDir":                   libReadDir,
		"(io/fs.DirEntry).Name":        libDirEntryName,
		"(io/fs.DirEntry).IsDir":       libDirEntryIsDir,
		"(io/fs.FileInfo).IsDir":       libFileInfoIsDir,
		"bytes.NewReader":              libBytesNewReader,
		"(*bytes.Reader).Read":         libReaderRead,
		"(io.Reader).Read":             libReaderRead,
		"io.ReadAll":                   libReadAll,
		"io.TeeReader":                 libTeeReader,
		"compress/zlib.NewReader":      libZlibNewReader,
		"crypto/sha1.New":              libSha1New,
		"io.WriteString":               libIoWriteString,
		"(hash.Hash).Sum":              libHashSum,
		"bufio.NewScanner":             libNewScanner,
		"(*bufio.Scanner).Scan":        libScan,
		"(*bufio.Scanner).Text":        libScanText,
		"encoding/binary.Write":        libBinaryWrite,
		"(*bytes.Buffer).Bytes":        libBufferBytes,
		"fmt.Println":                  libPrint,
		"fmt.Printf":                   libPrint,
		"fmt.Print":                    libPrint,
		"github.com/fatih/color.Green": libPrint,
	}
	m["fmt.Sscanf"] = libSscanf
	m["path/filepath.Dir"] = libDir
	m["io.ReadFull"] = libReadFull
	m["encoding/binary.Read"] = libBinaryRead
	m["os.Getwd"] = libGetwd
	m["path/filepath.Rel"] = libRel
	m["path/filepath.Abs"] = libAbs
	m["path/filepath.Clean"] = libClean
	m["strings.ReplaceAll"] = libReplaceAll
	m["strings.Replace"] = libReplace
	m["strings.TrimSpace"] = libTrimSpace
	m["compress/zlib.NewWriter"] = libZlibNewWriter
	m["(*compress/zlib.Writer).Write"] = libZlibWrite
	m["(*compress/zlib.Writer).Close"] = libZlibClose
	m["path/filepath.ToSlash"] = libToSlash
	m["(*github.com/spf13/cobra.Command).Flags"] = libNonNil
	m["(*strings.Builder).WriteString"] = libBuilderWrite
	m["(*strings.Builder).Write"] = libBuilderWrite
	m["(*strings.Builder).WriteByte"] = libBuilderWriteByte
	m["(*strings.Builder).String"] = libBuilderString
	m["(*strings.Builder).Len"] = libBuilderLen
	m["(*strings.Builder).Reset"] = libBuilderReset
	m["fmt.Fprintf"] = libFprintf
	for k, v := range m {
		libModels[k] = v
	}
}

func (g *FuncGen) ioEOF() string {
	name := "lg_io_EOF"
	if !g.declSeen[name] {
		g.declSeen[name] = true
		g.emit("(declare-const lg_io_EOF Int)")
		g.emit("(assert (not (= lg_io_EOF 0)))")
	}
	return name
}

func boolVal(t string) Val { return Val{t, types.Typ[types.Bool], "Bool"} }

func (g *FuncGen) newErr(st *State, prefix string) Val {
	return g.freshVal(st, prefix, types.Universe.Lookup("error").Type())
}

// filepath.Join(a, b, c...) on clean components: nested pjoin
func libJoin(g *FuncGen, c *ast.CallExpr, callee *types.Func, st *State) []Val {
	var cur string
	for i, a := range c.Args {
		v := g.ev(a, st)
		if i == 0 {
			cur = v.T
		} else {
			cur = fmt.Sprintf("(pjoin %s %s)", cur, v.T)
		}
	}
	return []Val{{cur, types.Typ[types.String], "Bytes"}}
}

func libReadFile(g *FuncGen, c *ast.CallExpr, callee *types.Func, st *State) []Val {
	p := g.ev(c.Args[0], st)
	fs := g.ghostGet(st, "$fs")
	res := g.libResults(callee, st)
	data, err := res[0], res[1]
	// succeeds when the path is a regular file, unless the read fails (a fault); then the whole content is returned
	fault := g.fresh("rdfault", "Bool")
	g.assume(st, fmt.Sprintf("(= (= %s 0) (and (isFile %s %s) (not %s)))", err.T, fs, p.T, fault))
	g.rdFailed(st, fmt.Sprintf("(and %s (isFile %s %s))", fault, fs, p.T))
	g.assume(st, fmt.Sprintf("(=> (= %s 0) (= %s (content %s %s)))", err.T, data.T, fs, p.T))
	g.assume(st, fmt.Sprintf("(=> (not (= %s 0)) (= (blen %s) 0))", err.T, data.T))
	g.assume(st, fmt.Sprintf("(=> (isNotExist %s) (isAbsent %s %s))", err.T, fs, p.T))
	// A-PATHMAX: a path the kernel resolved is at most PATH_MAX (4096) bytes long
	g.assume(st, fmt.Sprintf("(=> (= %s 0) (<= (blen %s) 4096))", err.T, p.T))
	return res
}

func libGetwd(g *FuncGen, c *ast.CallExpr, callee *types.Func, st *State) []Val {
	res := g.libResults(callee, st)
	g.assume(st, fmt.Sprintf("(<= (blen %s) 4096)", res[0].T))
	// the process never changes its directory (no os.Chdir outside tests): every successful call returns the same value
	g.assume(st, fmt.Sprintf("(=> (= %s 0) (= %s cwd))", res[1].T, res[0].T))
	g.declFun("cwdFails", nil, "Bool")
	g.assume(st, fmt.Sprintf("(= (= %s 0) (not cwdFails))", res[1].T))
	return res
}

// filepath.Rel(base, targ): at most one "../" per byte of base, then targ
func libRel(g *FuncGen, c *ast.CallExpr, callee *types.Func, st *State) []Val {
	b := g.ev(c.Args[0], st)
	t := g.ev(c.Args[1], st)
	g.declFun("relPath", []string{"Bytes", "Bytes"}, "Bytes")
	res := g.libResults(callee, st)
	g.assume(st, fmt.Sprintf("(=> (= %s 0) (and (= %s (relPath %s %s)) (<= (blen %s) (+ (* 3 (blen %s)) (blen %s)))))", res[1].T, res[0].T, b.T, t.T, res[0].T, b.T, t.T))
	// whether these fail depends on their arguments only (same call, same outcome within one run)
	g.declFun("relFails", []string{"Bytes", "Bytes"}, "Bool")
	g.assume(st, fmt.Sprintf("(= (= %s 0) (not (relFails %s %s)))", res[1].T, b.T, t.T))
	return res
}

func libAbs(g *FuncGen, c *ast.CallExpr, callee *types.Func, st *State) []Val {
	p := g.ev(c.Args[0], st)
	g.declFun("absPath", []string{"Bytes"}, "Bytes")
	res := g.libResults(callee, st)
	g.assume(st, fmt.Sprintf("(=> (= %s 0) (and (= %s (absPath %s)) (<= (blen %s) (+ 4097 (blen %s)))))", res[1].T, res[0].T, p.T, res[0].T, p.T))
	g.declFun("absFails", []string{"Bytes"}, "Bool")
	g.assume(st, fmt.Sprintf("(= (= %s 0) (not (absFails %s)))", res[1].T, p.T))
	return res
}

func libClean(g *FuncGen, c *ast.CallExpr, callee *types.Func, st *State) []Val {
	p := g.ev(c.Args[0], st)
	g.declFun("cleanPath", []string{"Bytes"}, "Bytes")
	r := Val{fmt.Sprintf("(cleanPath %s)", p.T), types.Typ[types.String], "Bytes"}
	g.assume(st, fmt.Sprintf("(and (<= (blen %s) (+ 1 (blen %s))) (>= (blen %s) 1))", r.T, p.T, r.T))
	return []Val{r}
}

func libReplaceAll(g *FuncGen, c *ast.CallExpr, callee *types.Func, st *State) []Val {
	s := g.ev(c.Args[0], st)
	o := g.ev(c.Args[1], st)
	n := g.ev(c.Args[2], st)
	g.declFun("replaceAll", []string{"Bytes", "Bytes", "Bytes"}, "Bytes")
	r := Val{fmt.Sprintf("(replaceAll %s %s %s)", s.T, o.T, n.T), types.Typ[types.String], "Bytes"}
	// replacing by a string of the same length keeps the length; without an occurrence nothing changes
	g.assume(st, fmt.Sprintf("(=> (= (blen %s) (blen %s)) (= (blen %s) (blen %s)))", o.T, n.T, r.T, s.T))
	g.assume(st, fmt.Sprintf("(=> (not (contains %s %s)) (= %s %s))", s.T, o.T, r.T, s.T))
	return []Val{r}
}

func libCreate(g *FuncGen, c *ast.CallExpr, callee *types.Func, st *State) []Val {
	p := g.ev(c.Args[0], st)
	fs := g.ghostGet(st, "$fs")
	res := g.libResults(callee, st)
	f, err := res[0], res[1]
	nfs := g.fresh("fs", "FS")
	g.assume(st, fmt.Sprintf("(ite (= %s 0) (and (= %s (fsWrite %s %s bempty)) (= (fpath %s) %s) (not (isDir %s %s))) (and (= %s %s) (= %s 0)))", err.T, nfs, fs, p.T, f.T, p.T, fs, p.T, nfs, fs, f.T))
	g.ghostSet(st, "$fs", nfs)
	g.ioFailed(st, err.T)
	return res
}

func libOpenFile(g *FuncGen, c *ast.CallExpr, callee *types.Func, st *State) []Val {
	p := g.ev(c.Args[0], st)
	g.ev(c.Args[1], st)
	g.ev(c.Args[2], st)
	// the append/create/write-only combination of the loggers, and create+truncate, which is os.Create
	flagsText := g.exprText(c.Args[1])
	if strings.Contains(flagsText, "O_TRUNC") && strings.Contains(flagsText, "O_CREATE") && !strings.Contains(flagsText, "O_APPEND") && !strings.Contains(flagsText, "O_EXCL") &&
		(strings.Contains(flagsText, "O_WRONLY") || strings.Contains(flagsText, "O_RDWR")) {
		return libCreate(g, c, callee, st)
	}
	if !(strings.Contains(flagsText, "O_APPEND") && strings.Contains(flagsText, "O_CREATE")) {
		g.fail("os.OpenFile with flags %s is not modelled", flagsText)
	}
	fs := g.ghostGet(st, "$fs")
	res := g.libResults(callee, st)
	f, err := res[0], res[1]
	nfs := g.fresh("fs", "FS")
	g.assume(st, fmt.Sprintf("(ite (= %s 0) (and (= %s (ite (isFile %s %s) %s (fsWrite %s %s bempty))) (= (fpath %s) %s) (not (isDir %s %s))) (and (= %s %s) (= %s 0)))",
		err.T, nfs, fs, p.T, fs, fs, p.T, f.T, p.T, fs, p.T, nfs, fs, f.T))
	g.ghostSet(st, "$fs", nfs)
	g.ioFailed(st, err.T)
	return res
}

func libOpen(g *FuncGen, c *ast.CallExpr, callee *types.Func, st *State) []Val {
	p := g.ev(c.Args[0], st)
	fs := g.ghostGet(st, "$fs")
	res := g.libResults(callee, st)
	f, err := res[0], res[1]
	fault := g.fresh("rdfault", "Bool")
	g.assume(st, fmt.Sprintf("(= (= %s 0) (and (not (isAbsent %s %s)) (not %s)))", err.T, fs, p.T, fault))
	g.assume(st, fmt.Sprintf("(=> (isNotExist %s) (isAbsent %s %s))", err.T, fs, p.T))
	g.rdFailed(st, fmt.Sprintf("(and %s (not (isAbsent %s %s)))", fault, fs, p.T))
	// reading a directory yields nothing (every read fails): modelled as empty content
	g.assume(st, fmt.Sprintf("(=> (= %s 0) (and (= (fpath %s) %s) (= (rdContent %s) (ite (isFile %s %s) (content %s %s) bempty)) (= (rdTee %s) 0)))", err.T, f.T, p.T, f.T, fs, p.T, fs, p.T, f.T))
	g.assume(st, fmt.Sprintf("(=> (not (= %s 0)) (= %s 0))", err.T, f.T))
	rp := g.ghostGet(st, "$rdpos")
	g.ghostSet(st, "$rdpos", fmt.Sprintf("(store %s %s 0)", rp, f.T))
	return res
}

// (*os.File).Write / WriteString: append to the file the handle names; a failed write leaves that file
// (and only that file) with unknown content.
func libFileWrite(g *FuncGen, c *ast.CallExpr, callee *types.Func, st *State) []Val {
	f := recvOf(g, c, st)
	src := g.exprText(c.Fun)
	g.oblige(st, "nil", src, nil, fmt.Sprintf("(not (= %s 0))", f.T), c.Pos(), src)
	data := g.ev(c.Args[0], st)
	fs := g.ghostGet(st, "$fs")
	res := g.libResults(callee, st)
	n, err := res[0], res[1]
	nfs := g.fresh("fs", "FS")
	junk := g.fresh("partial", "Bytes")
	g.assume(st, fmt.Sprintf("(ite (= %s 0) (and (= %s (fsWrite %s (fpath %s) (bcat (content %s (fpath %s)) %s))) (= %s (blen %s))) (= %s (fsWrite %s (fpath %s) %s)))",
		err.T, nfs, fs, f.T, fs, f.T, data.T, n.T, data.T, nfs, fs, f.T, junk))
	g.ghostSet(st, "$fs", nfs)
	g.ioFailed(st, err.T)
	return res
}

// encoding/binary.Write(w, order, &v): appends the fixed-size big-endian encoding of v (uninterpreted: encFixed)
func libBinaryWrite(g *FuncGen, c *ast.CallExpr, callee *types.Func, st *State) []Val {
	w := g.ev(c.Args[0], st)
	g.ev(c.Args[1], st)
	var v Val
	if u, ok := unparen(c.Args[2]).(*ast.UnaryExpr); ok && u.Op.String() == "&" {
		v = g.ev(u.X, st)
	} else {
		v = g.ev(c.Args[2], st)
	}
	fn := "encFixed_" + sanitize(v.S)
	g.declFun(fn, []string{v.S}, "Bytes")
	data := fmt.Sprintf("(%s %s)", fn, v.T)
	fs := g.ghostGet(st, "$fs")
	res := g.libResults(callee, st)
	err := res[0]
	nfs := g.fresh("fs", "FS")
	junk := g.fresh("partial", "Bytes")
	g.assume(st, fmt.Sprintf("(ite (= %s 0) (= %s (fsWrite %s (fpath %s) (bcat (content %s (fpath %s)) %s))) (= %s (fsWrite %s (fpath %s) %s)))",
		err.T, nfs, fs, w.T, fs, w.T, data, nfs, fs, w.T, junk))
	g.ghostSet(st, "$fs", nfs)
	g.ioFailed(st, err.T)
	return res
}

// os.Stat: FileInfo non-nil exactly when the error is nil; success means the path exists; a not-exist error
// means it is absent; other errors (ENOTDIR: a component of the path is a regular file; EACCES ...) are
// possible even in nofault mode and do NOT satisfy os.IsNotExist.
func libStatFS(g *FuncGen, c *ast.CallExpr, callee *types.Func, st *State) []Val {
	p := g.ev(c.Args[0], st)
	fs := g.ghostGet(st, "$fs")
	sig := callee.Type().(*types.Signature)
	info := g.freshVal(st, "fileinfo", sig.Results().At(0).Type())
	err := g.freshVal(st, "staterr", sig.Results().At(1).Type())
	g.declFun("infoIsDir", []string{"Int"}, "Bool")
	g.assume(st, fmt.Sprintf("(= (= %s 0) (not (= %s 0)))", err.T, info.T))
	g.assume(st, fmt.Sprintf("(=> (= %s 0) (and (not (isAbsent %s %s)) (= (infoIsDir %s) (isDir %s %s))))", err.T, fs, p.T, info.T, fs, p.T))
	g.assume(st, fmt.Sprintf("(=> (isNotExist %s) (isAbsent %s %s))", err.T, fs, p.T))
	g.assume(st, fmt.Sprintf("(=> (isNotDirErr %s) (isAbsent %s %s))", err.T, fs, p.T))
	g.assume(st, fmt.Sprintf("(=> (not (isAbsent %s %s)) (= %s 0))", fs, p.T, err.T))
	return []Val{info, err}
}

func libFileInfoIsDir(g *FuncGen, c *ast.CallExpr, callee *types.Func, st *State) []Val {
	r := recvOf(g, c, st)
	src := g.exprText(c.Fun)
	g.oblige(st, "nil", src, nil, fmt.Sprintf("(not (= %s 0))", r.T), c.Pos(), src)
	g.declFun("infoIsDir", []string{"Int"}, "Bool")
	return []Val{boolVal(fmt.Sprintf("(infoIsDir %s)", r.T))}
}

func libMkdir(g *FuncGen, c *ast.CallExpr, callee *types.Func, st *State) []Val {
	p := g.ev(c.Args[0], st)
	g.ev(c.Args[1], st)
	fs := g.ghostGet(st, "$fs")
	res := g.libResults(callee, st)
	err := res[0]
	nfs := g.fresh("fs", "FS")
	g.assume(st, fmt.Sprintf("(ite (= %s 0) (and (isAbsent %s %s) (= %s (fsMkdir %s %s))) (= %s %s))", err.T, fs, p.T, nfs, fs, p.T, nfs, fs))
	g.ghostSet(st, "$fs", nfs)
	g.ioFailed(st, err.T)
	return res
}

// os.MkdirAll: creates directories only; existing entries are untouched; on success p is a directory
func libMkdirAll(g *FuncGen, c *ast.CallExpr, callee *types.Func, st *State) []Val {
	p := g.ev(c.Args[0], st)
	g.ev(c.Args[1], st)
	fs := g.ghostGet(st, "$fs")
	res := g.libResults(callee, st)
	err := res[0]
	nfs := g.fresh("fs", "FS")
	g.assume(st, fmt.Sprintf("(forall ((q Bytes)) (! (and (=> (not (isAbsent %s q)) (= (select %s q) (select %s q))) (=> (not (= (select %s q) (select %s q))) (isDir %s q))) :pattern ((select %s q))))", fs, nfs, fs, nfs, fs, nfs, nfs))
	g.assume(st, fmt.Sprintf("(=> (= %s 0) (isDir %s %s))", err.T, nfs, p.T))
	g.ghostSet(st, "$fs", nfs)
	g.ioFailed(st, err.T)
	return res
}

func libRemove(g *FuncGen, c *ast.CallExpr, callee *types.Func, st *State) []Val {
	p := g.ev(c.Args[0], st)
	fs := g.ghostGet(st, "$fs")
	res := g.libResults(callee, st)
	err := res[0]
	nfs := g.fresh("fs", "FS")
	g.assume(st, fmt.Sprintf("(ite (= %s 0) (and (not (isAbsent %s %s)) (= %s (fsRemove %s %s))) (= %s %s))", err.T, fs, p.T, nfs, fs, p.T, nfs, fs))
	g.ghostSet(st, "$fs", nfs)
	g.ioFailed(st, err.T)
	return res
}

func libRename(g *FuncGen, c *ast.CallExpr, callee *types.Func, st *State) []Val {
	a := g.ev(c.Args[0], st)
	b := g.ev(c.Args[1], st)
	fs := g.ghostGet(st, "$fs")
	res := g.libResults(callee, st)
	err := res[0]
	nfs := g.fresh("fs", "FS")
	g.assume(st, fmt.Sprintf("(ite (= %s 0) (and (not (isAbsent %s %s)) (= %s (store (store %s %s fabsent) %s (select %s %s)))) (= %s %s))", err.T, fs, a.T, nfs, fs, a.T, b.T, fs, a.T, nfs, fs))
	g.ghostSet(st, "$fs", nfs)
	g.ioFailed(st, err.T)
	return res
}

// os.ReadDir: the entries are exactly the valid names present under the directory, without duplicates
func libReadDir(g *FuncGen, c *ast.CallExpr, callee *types.Func, st *State) []Val {
	p := g.ev(c.Args[0], st)
	fs := g.ghostGet(st, "$fs")
	res := g.libResults(callee, st)
	es, err := res[0], res[1]
	g.declFun("deName", []string{"Int"}, "Bytes")
	g.declFun("deIsDir", []string{"Int"}, "Bool")
	g.assume(st, fmt.Sprintf("(=> (= %s 0) (isDir %s %s))", err.T, fs, p.T))
	// listing a directory that is there may fail all the same (a fault)
	g.rdFailed(st, fmt.Sprintf("(and (not (= %s 0)) (isDir %s %s))", err.T, fs, p.T))
	g.assume(st, fmt.Sprintf("(=> (not (= %s 0)) (= (slen %s) 0))", err.T, es.T))
	g.assume(st, fmt.Sprintf("(forall ((k Int)) (! (=> (and (<= 0 k) (< k (slen %s))) (and (not (= (select (selems %s) k) 0)) (validName (deName (select (selems %s) k))) (not (isAbsent %s (pjoin %s (deName (select (selems %s) k))))) (= (deIsDir (select (selems %s) k)) (isDir %s (pjoin %s (deName (select (selems %s) k))))))) :pattern ((select (selems %s) k))))",
		es.T, es.T, es.T, fs, p.T, es.T, es.T, fs, p.T, es.T, es.T))
	g.assume(st, fmt.Sprintf("(forall ((i Int) (j Int)) (! (=> (and (<= 0 i) (< i j) (< j (slen %s))) (< (rank (deName (select (selems %s) i))) (rank (deName (select (selems %s) j))))) :pattern ((select (selems %s) i) (select (selems %s) j))))",
		es.T, es.T, es.T, es.T, es.T))
	g.assume(st, fmt.Sprintf("(=> (= %s 0) (forall ((n Bytes)) (! (=> (and (validName n) (not (isAbsent %s (pjoin %s n)))) (exists ((k Int)) (and (<= 0 k) (< k (slen %s)) (= (deName (select (selems %s) k)) n)))) :pattern ((pjoin %s n)))))",
		err.T, fs, p.T, es.T, es.T, p.T))
	return res
}

func libDirEntryName(g *FuncGen, c *ast.CallExpr, callee *types.Func, st *State) []Val {
	r := recvOf(g, c, st)
	src := g.exprText(c.Fun)
	g.oblige(st, "nil", src, nil, fmt.Sprintf("(not (= %s 0))", r.T), c.Pos(), src)
	g.declFun("deName", []string{"Int"}, "Bytes")
	return []Val{{fmt.Sprintf("(deName %s)", r.T), types.Typ[types.String], "Bytes"}}
}

func libDirEntryIsDir(g *FuncGen, c *ast.CallExpr, callee *types.Func, st *State) []Val {
	r := recvOf(g, c, st)
	src := g.exprText(c.Fun)
	g.oblige(st, "nil", src, nil, fmt.Sprintf("(not (= %s 0))", r.T), c.Pos(), src)
	g.declFun("deIsDir", []string{"Int"}, "Bool")
	return []Val{boolVal(fmt.Sprintf("(deIsDir %s)", r.T))}
}

// ---------- readers ----------

func (g *FuncGen) newReader(st *State, ty types.Type, contentT string, tee string) Val {
	r := g.allocOpaque(st, ty)
	g.assume(st, fmt.Sprintf("(and (= (rdContent %s) %s) (= (rdTee %s) %s))", r.T, contentT, r.T, tee))
	rp := g.ghostGet(st, "$rdpos")
	g.ghostSet(st, "$rdpos", fmt.Sprintf("(store %s %s 0)", rp, r.T))
	return r
}

func libBytesNewReader(g *FuncGen, c *ast.CallExpr, callee *types.Func, st *State) []Val {
	b := g.ev(c.Args[0], st)
	ty := callee.Type().(*types.Signature).Results().At(0).Type()
	return []Val{g.newReader(st, ty, b.T, "0")}
}

// advance moves reader r by n bytes, feeding a tee'd hash
func (g *FuncGen) advance(st *State, r string, n string) {
	rp := g.ghostGet(st, "$rdpos")
	hd := g.ghostGet(st, "$hashdata")
	pos := fmt.Sprintf("(select %s %s)", rp, r)
	chunk := fmt.Sprintf("(bsub (rdContent %s) %s (+ %s %s))", r, pos, pos, n)
	g.ghostSet(st, "$hashdata", fmt.Sprintf("(ite (= (rdTee %s) 0) %s (store %s (rdTee %s) (bcat (select %s (rdTee %s)) %s)))", r, hd, hd, r, hd, r, chunk))
	g.ghostSet(st, "$rdpos", fmt.Sprintf("(store %s %s (+ %s %s))", rp, r, pos, n))
}

// Read(buf): nofault; n = min(len(buf), remaining); io.EOF at the end (assumed: no short reads, no (0, nil))
func libReaderRead(g *FuncGen, c *ast.CallExpr, callee *types.Func, st *State) []Val {
	r := recvOf(g, c, st)
	src := g.exprText(c.Fun)
	g.oblige(st, "nil", src, nil, fmt.Sprintf("(not (= %s 0))", r.T), c.Pos(), src)
	buf := g.ev(c.Args[0], st)
	rp := g.ghostGet(st, "$rdpos")
	pos := fmt.Sprintf("(select %s %s)", rp, r.T)
	rem := fmt.Sprintf("(- (blen (rdContent %s)) %s)", r.T, pos)
	n := g.freshVal(st, "nread", types.Typ[types.Int])
	err := g.newErr(st, "readerr")
	g.assume(st, fmt.Sprintf("(and (<= 0 %s) (<= %s (blen (rdContent %s))))", pos, pos, r.T))
	if callee.FullName() == "(*bytes.Reader).Read" {
		// a bytes.Reader fills the buffer as far as it can
		g.assume(st, fmt.Sprintf("(= %s (ite (<= %s 0) 0 (ite (< (blen %s) %s) (blen %s) %s)))", n.T, rem, buf.T, rem, buf.T, rem))
	} else {
		// a general io.Reader (zlib stream, tee) may return fewer bytes than asked for: at least one when
		// something is left and the buffer is not empty, at most min(len(buf), remaining)
		g.assume(st, fmt.Sprintf("(ite (or (<= %s 0) (= (blen %s) 0)) (= %s 0) (and (<= 1 %s) (<= %s (blen %s)) (<= %s %s)))", rem, buf.T, n.T, n.T, n.T, buf.T, n.T, rem))
	}
	g.assume(st, fmt.Sprintf("(= %s (ite (and (<= %s 0) (> (blen %s) 0)) %s 0))", err.T, rem, buf.T, g.ioEOF()))
	nb := fmt.Sprintf("(bcat (bsub (rdContent %s) %s (+ %s %s)) (bsub %s %s (blen %s)))", r.T, pos, pos, n.T, buf.T, n.T, buf.T)
	g.advance(st, r.T, n.T)
	// the buffer variable now holds the bytes read
	if id := bufferVar(c.Args[0]); id != nil {
		g.assignTo(id, Val{nb, g.typeOf(id), "Bytes"}, st)
	}
	// a buffer that is not a variable (make(...) in place) cannot be looked at afterwards
	return []Val{n, err}
}

// io.ReadFull(r, buf): exactly len(buf) bytes, or an error (io.EOF when nothing was read, io.ErrUnexpectedEOF otherwise)
func libReadFull(g *FuncGen, c *ast.CallExpr, callee *types.Func, st *State) []Val {
	r := g.ev(c.Args[0], st)
	buf := g.ev(c.Args[1], st)
	rp := g.ghostGet(st, "$rdpos")
	pos := fmt.Sprintf("(select %s %s)", rp, r.T)
	rem := fmt.Sprintf("(- (blen (rdContent %s)) %s)", r.T, pos)
	n := g.freshVal(st, "nread", types.Typ[types.Int])
	err := g.newErr(st, "readerr")
	g.assume(st, fmt.Sprintf("(and (<= 0 %s) (<= %s (blen (rdContent %s))))", pos, pos, r.T))
	g.assume(st, fmt.Sprintf("(= %s (ite (< (blen %s) %s) (blen %s) %s))", n.T, buf.T, rem, buf.T, rem))
	g.assume(st, fmt.Sprintf("(= (= %s 0) (= %s (blen %s)))", err.T, n.T, buf.T))
	nb := fmt.Sprintf("(bcat (bsub (rdContent %s) %s (+ %s %s)) (bsub %s %s (blen %s)))", r.T, pos, pos, n.T, buf.T, n.T, buf.T)
	g.advance(st, r.T, n.T)
	if id := bufferVar(c.Args[1]); id != nil {
		g.assignTo(id, Val{nb, g.typeOf(id), "Bytes"}, st)
	}
	return []Val{n, err}
}

// bufferVar: the variable a read fills: "buf", or "arr[:]" over a whole array variable
func bufferVar(e ast.Expr) *ast.Ident {
	e = unparen(e)
	if id, ok := e.(*ast.Ident); ok {
		return id
	}
	if sl, ok := e.(*ast.SliceExpr); ok && sl.Low == nil && sl.High == nil && sl.Max == nil {
		if id, ok := unparen(sl.X).(*ast.Ident); ok {
			return id
		}
	}
	return nil
}

func libReadAll(g *FuncGen, c *ast.CallExpr, callee *types.Func, st *State) []Val {
	r := g.ev(c.Args[0], st)
	rp := g.ghostGet(st, "$rdpos")
	pos := fmt.Sprintf("(select %s %s)", rp, r.T)
	g.assume(st, fmt.Sprintf("(and (<= 0 %s) (<= %s (blen (rdContent %s))))", pos, pos, r.T))
	data := fmt.Sprintf("(bsub (rdContent %s) %s (blen (rdContent %s)))", r.T, pos, r.T)
	dv := g.freshVal(st, "readall", types.NewSlice(types.Typ[types.Uint8]))
	g.assume(st, fmt.Sprintf("(= %s %s)", dv.T, data))
	g.advance(st, r.T, fmt.Sprintf("(- (blen (rdContent %s)) %s)", r.T, pos))
	err := Val{"0", types.Universe.Lookup("error").Type(), "Int"}
	return []Val{dv, err}
}

func libTeeReader(g *FuncGen, c *ast.CallExpr, callee *types.Func, st *State) []Val {
	r := g.ev(c.Args[0], st)
	w := g.ev(c.Args[1], st)
	ty := callee.Type().(*types.Signature).Results().At(0).Type()
	// the tee reader continues at the position of the underlying reader, which is not used directly afterwards
	rp := g.ghostGet(st, "$rdpos")
	t := g.allocOpaque(st, ty)
	g.assume(st, fmt.Sprintf("(and (= (rdContent %s) (rdContent %s)) (= (rdTee %s) %s))", t.T, r.T, t.T, w.T))
	g.ghostSet(st, "$rdpos", fmt.Sprintf("(store %s %s (select %s %s))", rp, t.T, rp, r.T))
	return []Val{t}
}

func libZlibNewReader(g *FuncGen, c *ast.CallExpr, callee *types.Func, st *State) []Val {
	f := g.ev(c.Args[0], st)
	sig := callee.Type().(*types.Signature)
	zr := g.allocOpaque(st, sig.Results().At(0).Type())
	err := g.newErr(st, "zliberr")
	rp := g.ghostGet(st, "$rdpos")
	// succeeds exactly on a valid zlib stream (read from the start of the file); yields the decompressed bytes
	g.assume(st, fmt.Sprintf("(= (= %s 0) (validZlib (rdContent %s)))", err.T, f.T))
	g.assume(st, fmt.Sprintf("(and (= (rdContent %s) (zlibDec (rdContent %s))) (= (rdTee %s) 0))", zr.T, f.T, zr.T))
	g.ghostSet(st, "$rdpos", fmt.Sprintf("(store %s %s 0)", rp, zr.T))
	res := g.freshVal(st, "zr", zr.Ty)
	g.assume(st, fmt.Sprintf("(ite (= %s 0) (= %s %s) (= %s 0))", err.T, res.T, zr.T, res.T))
	return []Val{res, err}
}

// ---------- hashes ----------

func libSha1New(g *FuncGen, c *ast.CallExpr, callee *types.Func, st *State) []Val {
	h := g.allocOpaque(st, callee.Type().(*types.Signature).Results().At(0).Type())
	hd := g.ghostGet(st, "$hashdata")
	g.ghostSet(st, "$hashdata", fmt.Sprintf("(store %s %s bempty)", hd, h.T))
	return []Val{h}
}

func libIoWriteString(g *FuncGen, c *ast.CallExpr, callee *types.Func, st *State) []Val {
	w := g.ev(c.Args[0], st)
	s := g.ev(c.Args[1], st)
	// only hash writers are passed to io.WriteString in this repository
	wt := g.typeOf(c.Args[0])
	if wt == nil || !strings.Contains(wt.String(), "hash.Hash") {
		g.fail("io.WriteString to %v is not modelled", wt)
	}
	hd := g.ghostGet(st, "$hashdata")
	g.ghostSet(st, "$hashdata", fmt.Sprintf("(store %s %s (bcat (select %s %s) %s))", hd, w.T, hd, w.T, s.T))
	n := Val{fmt.Sprintf("(blen %s)", s.T), types.Typ[types.Int], "Int"}
	return []Val{n, {"0", types.Universe.Lookup("error").Type(), "Int"}}
}

func libHashSum(g *FuncGen, c *ast.CallExpr, callee *types.Func, st *State) []Val {
	h := recvOf(g, c, st)
	b := coerce(g.ev(c.Args[0], st), types.NewSlice(types.Typ[types.Uint8]))
	hd := g.ghostGet(st, "$hashdata")
	return []Val{{fmt.Sprintf("(bcat %s (sha1 (select %s %s)))", b.T, hd, h.T), types.NewSlice(types.Typ[types.Uint8]), "Bytes"}}
}

// ---------- bufio.Scanner over a reader (lines; assumed: no line longer than 64 KiB, no CR stripping) ----------

func libNewScanner(g *FuncGen, c *ast.CallExpr, callee *types.Func, st *State) []Val {
	r := g.ev(c.Args[0], st)
	s := g.allocOpaque(st, callee.Type().(*types.Signature).Results().At(0).Type())
	rest := g.ghostGet(st, "$screst")
	rp := g.ghostGet(st, "$rdpos")
	g.ghostSet(st, "$screst", fmt.Sprintf("(store %s %s (bsub (rdContent %s) (select %s %s) (blen (rdContent %s))))", rest, s.T, r.T, rp, r.T, r.T))
	return []Val{s}
}

func libScan(g *FuncGen, c *ast.CallExpr, callee *types.Func, st *State) []Val {
	s := recvOf(g, c, st)
	rest := g.ghostGet(st, "$screst")
	tok := g.ghostGet(st, "$sctok")
	cur := fmt.Sprintf("(select %s %s)", rest, s.T)
	nl := g.strLit("\n")
	ok := fmt.Sprintf("(> (blen %s) 0)", cur)
	newTok := fmt.Sprintf("(ite (contains %s %s) (splitHead %s %s) %s)", cur, nl, cur, nl, cur)
	newRest := fmt.Sprintf("(ite (contains %s %s) (splitTail %s %s) bempty)", cur, nl, cur, nl)
	g.assume(st, fmt.Sprintf("(scanStep %s)", cur))
	g.ghostSet(st, "$sctok", fmt.Sprintf("(ite %s (store %s %s %s) %s)", ok, tok, s.T, newTok, tok))
	g.ghostSet(st, "$screst", fmt.Sprintf("(ite %s (store %s %s %s) %s)", ok, rest, s.T, newRest, rest))
	return []Val{boolVal(ok)}
}

func libScanText(g *FuncGen, c *ast.CallExpr, callee *types.Func, st *State) []Val {
	s := recvOf(g, c, st)
	tok := g.ghostGet(st, "$sctok")
	t := fmt.Sprintf("(select %s %s)", tok, s.T)
	// a token is at most bufio.MaxScanTokenSize long (Scan fails on longer lines)
	g.assume(st, fmt.Sprintf("(<= (blen %s) 65536)", t))
	return []Val{{t, types.Typ[types.String], "Bytes"}}
}

func libBufferBytes(g *FuncGen, c *ast.CallExpr, callee *types.Func, st *State) []Val {
	b := recvOf(g, c, st)
	return []Val{{fmt.Sprintf("(bufBytes %s)", b.T), types.NewSlice(types.Typ[types.Uint8]), "Bytes"}}
}

// ---------- console output ----------

// fmt.Printf/Println/Print and color.Green append one element to the ghost output sequence
func libPrint(g *FuncGen, c *ast.CallExpr, callee *types.Func, st *State) []Val {
	var text string
	name := callee.Name()
	switch {
	case (name == "Printf" || name == "Green") && len(c.Args) > 0:
		if tv, ok := g.info.Types[c.Args[0]]; ok && tv.Value != nil && tv.Value.Kind() == constant.String {
			text = libSprintf(g, c, callee, st)[0].T
			if name == "Green" {
				g.declFun("colored", []string{"Bytes"}, "Bytes")
				text = fmt.Sprintf("(bcat (colored %s) %s)", text, g.strLit("\n"))
			}
		}
	case name == "Println" && len(c.Args) == 1:
		v := g.ev(c.Args[0], st)
		text = fmt.Sprintf("(bcat %s %s)", g.stringOf(st, c.Args[0], v, "v"), g.strLit("\n"))
	}
	if text == "" {
		for _, a := range c.Args {
			g.evMulti(a, st)
		}
		text = g.fresh("printed", "Bytes")
	}
	out := g.ghostGet(st, "$out")
	no := g.fresh("out", "(Sq Bytes)")
	g.emit(fmt.Sprintf("(assert (= %s (mkseq (+ (slen %s) 1) (store (selems %s) (slen %s) %s))))", no, out, out, out, text))
	g.ghostSet(st, "$out", no)
	sig := callee.Type().(*types.Signature)
	var res []Val
	for i := 0; i < sig.Results().Len(); i++ {
		res = append(res, g.freshVal(st, "lib", sig.Results().At(i).Type()))
	}
	return res
}

// fmt.Sscanf(s, format, &a, &b...) for the three constant formats of this repository
func libSscanf(g *FuncGen, c *ast.CallExpr, callee *types.Func, st *State) []Val {
	s := g.ev(c.Args[0], st)
	tv, ok := g.info.Types[c.Args[1]]
	if !ok || tv.Value == nil {
		g.fail("fmt.Sscanf with non-constant format")
	}
	format := constant.StringVal(tv.Value)
	n := g.freshVal(st, "nscan", types.Typ[types.Int])
	err := g.newErr(st, "scanerr")
	var outs []ast.Expr
	for _, a := range c.Args[2:] {
		u, ok := unparen(a).(*ast.UnaryExpr)
		if !ok || u.Op.String() != "&" {
			g.fail("fmt.Sscanf: argument is not an address")
		}
		outs = append(outs, u.X)
	}
	switch format {
	case "%d":
		v := g.freshVal(st, "scanned", g.typeOf(outs[0]))
		// succeeds exactly when the text starts with a decimal numeral (assumed); then yields its value
		g.assume(st, fmt.Sprintf("(= (= %s 0) (startsWithInt %s))", err.T, s.T))
		g.assume(st, fmt.Sprintf("(=> (= %s 0) (= %s (atoi %s)))", err.T, v.T, s.T))
		old := g.ev(outs[0], st)
		g.assignTo(outs[0], Val{fmt.Sprintf("(ite (= %s 0) %s %s)", err.T, v.T, old.T), v.Ty, "Int"}, st)
	case "+%02d%02d", "-%02d%02d":
		// "<sign>HHMM": two two-digit fields (assumed: on text of the form sign ++ fmtd(a,2) ++ fmtd(b,2) with
		// 0 <= a,b <= 99 the scan succeeds and yields a and b)
		a := g.freshVal(st, "scanned", g.typeOf(outs[0]))
		b := g.freshVal(st, "scanned", g.typeOf(outs[1]))
		sign := g.strLit(format[:1])
		g.assume(st, fmt.Sprintf("(forall ((x Int) (y Int)) (! (=> (and (<= 0 x) (<= x 99) (<= 0 y) (<= y 99) (= %s (bcat %s (bcat (fmtd x 2) (fmtd y 2))))) (and (= %s 0) (= %s x) (= %s y))) :pattern ((bcat (fmtd x 2) (fmtd y 2)))))", s.T, sign, err.T, a.T, b.T))
		// a field of width two holds at most two characters: a value in [-9, 99]
		g.assume(st, fmt.Sprintf("(and (<= (- 9) %s) (<= %s 99) (<= (- 9) %s) (<= %s 99))", a.T, a.T, b.T, b.T))
		oa := g.ev(outs[0], st)
		ob := g.ev(outs[1], st)
		g.assignTo(outs[0], Val{fmt.Sprintf("(ite (= %s 0) %s %s)", err.T, a.T, oa.T), a.Ty, "Int"}, st)
		g.assignTo(outs[1], Val{fmt.Sprintf("(ite (= %s 0) %s %s)", err.T, b.T, ob.T), b.Ty, "Int"}, st)
	default:
		g.fail("fmt.Sscanf format %q is not modelled", format)
	}
	return []Val{n, err}
}

func libNonNil(g *FuncGen, c *ast.CallExpr, callee *types.Func, st *State) []Val {
	if sel, ok := unparen(c.Fun).(*ast.SelectorExpr); ok {
		r := g.ev(sel.X, st)
		src := g.exprText(sel.X)
		g.oblige(st, "nil", src, nil, fmt.Sprintf("(not (= %s 0))", r.T), c.Pos(), g.exprText(c.Fun))
	}
	for _, a := range c.Args {
		g.evMulti(a, st)
	}
	res := g.libResults(callee, st)
	for _, r := range res {
		if isPtr(r.Ty) {
			g.assume(st, fmt.Sprintf("(not (= %s 0))", r.T))
		}
	}
	return res
}

// encoding/binary.Read(r, order, &v): v gets a value decoded from the next bytes; a byte slice keeps its
// length; fixed-size integers stay in range (assumed contract; the decoded content is uninterpreted here).
func libBinaryRead(g *FuncGen, c *ast.CallExpr, callee *types.Func, st *State) []Val {
	r := g.ev(c.Args[0], st)
	g.ev(c.Args[1], st)
	res := g.libResults(callee, st)
	u, ok := unparen(c.Args[2]).(*ast.UnaryExpr)
	if !ok || u.Op.String() != "&" {
		g.fail("binary.Read: destination is not an address")
	}
	old := g.ev(u.X, st)
	nv := g.freshVal(st, "decoded", g.typeOf(u.X))
	if old.S == "Bytes" {
		g.assume(st, fmt.Sprintf("(= (blen %s) (blen %s))", nv.T, old.T))
	}
	g.assignTo(u.X, nv, st)
	// the reader moves forward by an unspecified amount (at most to its end)
	rp := g.ghostGet(st, "$rdpos")
	np := g.fresh("pos", "Int")
	g.assume(st, fmt.Sprintf("(and (<= (select %s %s) %s) (<= %s (blen (rdContent %s))))", rp, r.T, np, np, r.T))
	g.ghostSet(st, "$rdpos", fmt.Sprintf("(store %s %s %s)", rp, r.T, np))
	return res
}

func libDir(g *FuncGen, c *ast.CallExpr, callee *types.Func, st *State) []Val {
	p := g.ev(c.Args[0], st)
	return []Val{{fmt.Sprintf("(pdir %s)", p.T), types.Typ[types.String], "Bytes"}}
}

// filepath.ToSlash: the identity where the separator is '/', as on the platform these checks run on (GOOS=linux)
func libToSlash(g *FuncGen, c *ast.CallExpr, callee *types.Func, st *State) []Val {
	g.libNote("filepath.ToSlash: identity (GOOS=linux)")
	return []Val{g.ev(c.Args[0], st)}
}

// ---------- zlib.Writer over a bytes.Buffer (assumed: the buffer is fresh and receives nothing but this stream) ----------

// zlib.NewWriter(&b): a writer that has taken nothing yet and will deliver into b
func libZlibNewWriter(g *FuncGen, c *ast.CallExpr, callee *types.Func, st *State) []Val {
	target := g.ev(c.Args[0], st)
	w := g.allocOpaque(st, callee.Type().(*types.Signature).Results().At(0).Type())
	g.declFun("zwTarget", []string{"Int"}, "Int")
	g.assume(st, fmt.Sprintf("(= (zwTarget %s) %s)", w.T, target.T))
	zw := g.ghostGet(st, "$zw")
	g.ghostSet(st, "$zw", fmt.Sprintf("(store %s %s bempty)", zw, w.T))
	return []Val{w}
}

// w.Write(p): on success the writer has taken p as well
func libZlibWrite(g *FuncGen, c *ast.CallExpr, callee *types.Func, st *State) []Val {
	w := recvOf(g, c, st)
	src := g.exprText(c.Fun)
	g.oblige(st, "nil", src, nil, fmt.Sprintf("(not (= %s 0))", w.T), c.Pos(), src)
	data := coerce(g.ev(c.Args[0], st), types.NewSlice(types.Typ[types.Uint8]))
	res := g.libResults(callee, st)
	zw := g.ghostGet(st, "$zw")
	g.ghostSet(st, "$zw", fmt.Sprintf("(ite (= %s 0) (store %s %s (bcat (select %s %s) %s)) %s)", res[1].T, zw, w.T, zw, w.T, data.T, zw))
	g.assume(st, fmt.Sprintf("(=> (= %s 0) (= %s (blen %s)))", res[1].T, res[0].T, data.T))
	return res
}

// w.Close(): the target buffer now holds the zlib stream of everything written
func libZlibClose(g *FuncGen, c *ast.CallExpr, callee *types.Func, st *State) []Val {
	w := recvOf(g, c, st)
	src := g.exprText(c.Fun)
	g.oblige(st, "nil", src, nil, fmt.Sprintf("(not (= %s 0))", w.T), c.Pos(), src)
	res := g.libResults(callee, st)
	g.declFun("zwTarget", []string{"Int"}, "Int")
	zw := g.ghostGet(st, "$zw")
	// the target is a bytes.Buffer, whose Write never returns an error: neither does Close
	g.assume(st, fmt.Sprintf("(= %s 0)", res[0].T))
	g.assume(st, fmt.Sprintf("(= (bufBytes (zwTarget %s)) (zlibEnc (select %s %s)))", w.T, zw, w.T))
	return res
}

// ---------- strings.Builder: the text built so far is ghost state of the handle ("var sb strings.Builder" starts empty) ----------

func builderAppend(g *FuncGen, st *State, h, text string) {
	sb := g.ghostGet(st, "$sb")
	g.ghostSet(st, "$sb", fmt.Sprintf("(store %s %s (bcat (select %s %s) %s))", sb, h, sb, h, text))
}

func libBuilderWrite(g *FuncGen, c *ast.CallExpr, callee *types.Func, st *State) []Val {
	b := recvOf(g, c, st)
	data := coerce(g.ev(c.Args[0], st), types.Typ[types.String])
	builderAppend(g, st, b.T, data.T)
	return []Val{{fmt.Sprintf("(blen %s)", data.T), types.Typ[types.Int], "Int"}, {"0", types.Universe.Lookup("error").Type(), "Int"}}
}

func libBuilderWriteByte(g *FuncGen, c *ast.CallExpr, callee *types.Func, st *State) []Val {
	b := recvOf(g, c, st)
	v := g.ev(c.Args[0], st)
	builderAppend(g, st, b.T, fmt.Sprintf("(byte1 %s)", v.T))
	return []Val{{"0", types.Universe.Lookup("error").Type(), "Int"}}
}

func libBuilderString(g *FuncGen, c *ast.CallExpr, callee *types.Func, st *State) []Val {
	b := recvOf(g, c, st)
	return []Val{{fmt.Sprintf("(select %s %s)", g.ghostGet(st, "$sb"), b.T), types.Typ[types.String], "Bytes"}}
}

func libBuilderLen(g *FuncGen, c *ast.CallExpr, callee *types.Func, st *State) []Val {
	b := recvOf(g, c, st)
	return []Val{{fmt.Sprintf("(blen (select %s %s))", g.ghostGet(st, "$sb"), b.T), types.Typ[types.Int], "Int"}}
}

func libBuilderReset(g *FuncGen, c *ast.CallExpr, callee *types.Func, st *State) []Val {
	b := recvOf(g, c, st)
	sb := g.ghostGet(st, "$sb")
	g.ghostSet(st, "$sb", fmt.Sprintf("(store %s %s bempty)", sb, b.T))
	return nil
}

// fmt.Fprintf(&sb, constant format, args...) into a strings.Builder appends what Sprintf would return; any other
// writer is not modelled (results unconstrained)
func libFprintf(g *FuncGen, c *ast.CallExpr, callee *types.Func, st *State) []Val {
	wt := g.typeOf(c.Args[0])
	if wt != nil && strings.HasSuffix(wt.String(), "strings.Builder") && len(c.Args) >= 2 {
		if tv, ok := g.info.Types[c.Args[1]]; ok && tv.Value != nil && tv.Value.Kind() == constant.String {
			w := g.ev(c.Args[0], st)
			text := libSprintf(g, &ast.CallExpr{Fun: c.Fun, Lparen: c.Lparen, Args: c.Args[1:], Rparen: c.Rparen}, callee, st)[0]
			builderAppend(g, st, w.T, text.T)
			return []Val{{fmt.Sprintf("(blen %s)", text.T), types.Typ[types.Int], "Int"}, {"0", types.Universe.Lookup("error").Type(), "Int"}}
		}
	}
	for _, a := range c.Args {
		g.evMulti(a, st)
	}
	return g.libResults(callee, st)
}

// strings.Replace(s, old, new, n) with a negative constant n is ReplaceAll; any other count is not modelled
func libReplace(g *FuncGen, c *ast.CallExpr, callee *types.Func, st *State) []Val {
	if tv, ok := g.info.Types[c.Args[3]]; ok && tv.Value != nil {
		if n, exact := constant.Int64Val(tv.Value); exact && n < 0 {
			return libReplaceAll(g, c, callee, st)
		}
	}
	for _, a := range c.Args {
		g.ev(a, st)
	}
	return g.libResults(callee, st)
}

func libTrimSpace(g *FuncGen, c *ast.CallExpr, callee *types.Func, st *State) []Val {
	s := g.ev(c.Args[0], st)
	return []Val{{fmt.Sprintf("(trimSpace %s)", s.T), types.Typ[types.String], "Bytes"}}
}
