package main

import (
	"fmt"
	"go/ast"
	"go/constant"
	"go/token"
	"go/types"
	"regexp"
	"strconv"
	"strings"
)

// ---------- literals ----------

func (g *FuncGen) strLit(s string) string {
	if s == "" {
		return "bempty"
	}
	if n, ok := g.lits[s]; ok {
		return n
	}
	n := "lit_" + sanitize(s)
	if len(n) > 24 {
		n = n[:24]
	}
	n = fmt.Sprintf("%s_%s", n, hashText(s)[:6])
	g.lits[s] = n
	g.litOrder = append(g.litOrder, s)
	g.emit(fmt.Sprintf("(declare-const %s Bytes)", n))
	g.emit(fmt.Sprintf("(assert (= (blen %s) %d))", n, len(s)))
	if len(s) <= 64 {
		for i := 0; i < len(s); i++ {
			g.emit(fmt.Sprintf("(assert (= (bat %s %d) %d))", n, i, s[i]))
		}
	}
	// distinct from every other literal seen so far
	for _, o := range g.litOrder[:len(g.litOrder)-1] {
		g.emit(fmt.Sprintf("(assert (not (= %s %s)))", n, g.lits[o]))
		// order between literals is known
		if o < s {
			g.emit(fmt.Sprintf("(assert (< (rank %s) (rank %s)))", g.lits[o], n))
		} else {
			g.emit(fmt.Sprintf("(assert (< (rank %s) (rank %s)))", n, g.lits[o]))
		}
	}
	if len(s) == 1 {
		g.emit(fmt.Sprintf("(assert (= %s (byte1 %d)))", n, s[0]))
	}
	if len(s) == 2 {
		g.emit(fmt.Sprintf("(assert (= %s (bcat (byte1 %d) (byte1 %d))))", n, s[0], s[1]))
	}
	for _, cb := range []byte{0, 9, 10, 32, 47, 60, 62} {
		if strings.IndexByte(s, cb) < 0 {
			g.emit(fmt.Sprintf("(assert (noByte %s %d))", n, cb))
		}
	}
	if !strings.Contains(s, "/") && s != "." && s != ".." && !strings.Contains(s, "\x00") {
		g.emit(fmt.Sprintf("(assert (validName %s))", n))
	}
	// "key<sep>": a short literal ending in its only separator byte is the key followed by that byte (the key and the
	// separator become literals of their own, the concatenation fact below relates the three)
	if len(s) >= 2 && len(s) <= 16 {
		last := s[len(s)-1]
		if strings.IndexByte(" \n\t/:=", last) >= 0 && strings.IndexByte(s, last) == len(s)-1 {
			g.strLit(s[:len(s)-1])
			g.strLit(string(last))
		}
	}
	// a literal that is the concatenation of two others: stated, since the solver has no extensionality for Bytes
	for _, t := range g.litOrder {
		for k := 1; k < len(t); k++ {
			a, b := t[:k], t[k:]
			if a != s && b != s && t != s {
				continue
			}
			na, oka := g.lits[a]
			nb, okb := g.lits[b]
			if oka && okb {
				g.emit(fmt.Sprintf("(assert (= (bcat %s %s) %s))", na, nb, g.lits[t]))
			}
		}
	}
	return n
}

func intLit(v int64) string {
	if v < 0 {
		return fmt.Sprintf("(- %d)", -v)
	}
	return strconv.FormatInt(v, 10)
}

func (g *FuncGen) constVal(tv types.TypeAndValue) (Val, bool) {
	if tv.Value == nil {
		return Val{}, false
	}
	ty := tv.Type
	switch tv.Value.Kind() {
	case constant.Int:
		if i, ok := constant.Int64Val(tv.Value); ok {
			return Val{intLit(i), ty, "Int"}, true
		}
		s := tv.Value.ExactString()
		return Val{s, ty, "Int"}, true
	case constant.Bool:
		return Val{strconv.FormatBool(constant.BoolVal(tv.Value)), ty, "Bool"}, true
	case constant.String:
		return Val{g.strLit(constant.StringVal(tv.Value)), ty, "Bytes"}, true
	}
	return Val{}, false
}

// ---------- globals ----------

func globalKey(o types.Object) string {
	return "$g." + pkgShort(o.Pkg()) + "." + o.Name()
}

func (g *FuncGen) globalGet(st *State, o types.Object) Val {
	key := globalKey(o)
	s := sortOf(o.Type())
	if t, ok := st.heap[key]; ok {
		return Val{t, o.Type(), s}
	}
	n := heapName(key) + "_0"
	if _, ok := g.heapKeys[key]; !ok {
		g.heapKeys[key] = s
		g.emit(fmt.Sprintf("(declare-const %s %s)", n, s))
		g.typeFacts(nil, n, o.Type())
		if g.P.constErrorVar(o) {
			// package-level error value created once by errors.New and never reassigned anywhere in the repository
			g.emit(fmt.Sprintf("(assert (not (= %s 0)))", n))
		}
	}
	if g.entry != nil {
		if _, ok := g.entry.heap[key]; !ok {
			g.entry.heap[key] = n
		}
	}
	st.heap[key] = n
	return Val{n, o.Type(), s}
}

// ---------- struct field access ----------

func structOf(t types.Type) (*types.Named, *types.Struct, bool) {
	t = types.Unalias(t)
	if p, ok := t.Underlying().(*types.Pointer); ok {
		t = types.Unalias(p.Elem())
	}
	n, ok := t.(*types.Named)
	if !ok {
		return nil, nil, false
	}
	s, ok := n.Underlying().(*types.Struct)
	return n, s, ok
}

// fieldRead reads field number idx of base (pointer or struct value).
func (g *FuncGen) fieldRead(st *State, base Val, idx int, pos token.Pos, src string) Val {
	n, s, ok := structOf(base.Ty)
	if !ok {
		g.fail("field access on non-struct %v", base.Ty)
	}
	f := s.Field(idx)
	fs := sortOf(f.Type())
	if !isRepoPkg(n.Obj().Pkg()) {
		// field of a library struct: uninterpreted
		fn := "lf_" + namedKey(n) + "_" + f.Name()
		g.declFun(fn, []string{base.S}, fs)
		v := Val{fmt.Sprintf("(%s %s)", fn, base.T), f.Type(), fs}
		g.typeFacts(st, v.T, f.Type())
		return v
	}
	if _, isPtr := types.Unalias(base.Ty).Underlying().(*types.Pointer); isPtr {
		g.oblige(st, "nil", src, nil, fmt.Sprintf("(not (= %s 0))", base.T), pos, src)
		h := g.heapGet(st, fieldKey(n, f.Name()), fs)
		v := Val{fmt.Sprintf("(select %s %s)", h, base.T), f.Type(), fs}
		g.typeFacts(st, v.T, f.Type())
		return v
	}
	v := Val{fmt.Sprintf("(S_%s_%s %s)", namedKey(n), f.Name(), base.T), f.Type(), fs}
	g.typeFacts(st, v.T, f.Type())
	return v
}

func (g *FuncGen) declFun(name string, args []string, res string) {
	if g.declSeen[name] {
		return
	}
	g.declSeen[name] = true
	if _, inPrelude := preludeSigs[name]; inPrelude {
		return
	}
	g.emit(fmt.Sprintf("(declare-fun %s (%s) %s)", name, strings.Join(args, " "), res))
}

// structUpdate returns base (a struct value) with field idx replaced.
func structUpdate(base Val, idx int, nv string) string {
	n, s, _ := structOf(base.Ty)
	var sb strings.Builder
	sb.WriteString("(mk_S_" + namedKey(n))
	for i := 0; i < s.NumFields(); i++ {
		if i == idx {
			sb.WriteString(" " + nv)
		} else {
			sb.WriteString(fmt.Sprintf(" (S_%s_%s %s)", namedKey(n), s.Field(i).Name(), base.T))
		}
	}
	sb.WriteString(")")
	return sb.String()
}

// ---------- expression evaluation ----------

func (g *FuncGen) ev(e ast.Expr, st *State) Val {
	vs := g.evMulti(e, st)
	if len(vs) != 1 {
		g.fail("expression %s yields %d values", g.exprText(e), len(vs))
	}
	return vs[0]
}

func (g *FuncGen) evMulti(e ast.Expr, st *State) []Val {
	if tv, ok := g.info.Types[e]; ok && tv.Value != nil {
		if v, ok := g.constVal(tv); ok {
			return []Val{v}
		}
	}
	switch x := e.(type) {
	case *ast.ParenExpr:
		return g.evMulti(x.X, st)
	case *ast.CallExpr:
		return g.evCall(x, st)
	}
	return []Val{g.ev1(e, st)}
}

func (g *FuncGen) typeOf(e ast.Expr) types.Type {
	if tv, ok := g.info.Types[e]; ok {
		return tv.Type
	}
	if id, ok := e.(*ast.Ident); ok {
		if o := g.info.ObjectOf(id); o != nil {
			return o.Type()
		}
	}
	return nil
}

func (g *FuncGen) ev1(e ast.Expr, st *State) Val {
	switch x := e.(type) {
	case *ast.Ident:
		return g.evIdent(x, st)
	case *ast.BasicLit:
		g.fail("non-constant literal %s", x.Value)
	case *ast.SelectorExpr:
		return g.evSelector(x, st)
	case *ast.IndexExpr:
		return g.evIndex(x, st)
	case *ast.SliceExpr:
		return g.evSlice(x, st)
	case *ast.StarExpr:
		v := g.ev(x.X, st)
		if _, _, ok := structOf(v.Ty); ok {
			// *p as a struct value: read all fields
			return g.derefStruct(st, v, x.Pos())
		}
		g.fail("unsupported dereference %s", g.exprText(e))
	case *ast.UnaryExpr:
		return g.evUnary(x, st)
	case *ast.BinaryExpr:
		return g.evBinary(x, st)
	case *ast.CompositeLit:
		return g.evComposite(x, st, false)
	case *ast.FuncLit:
		// closures are opaque values; patterns (sort.Slice, walkFunc) look at the AST directly
		return g.freshVal(st, "closure", g.typeOf(e))
	case *ast.TypeAssertExpr:
		v := g.ev(x.X, st)
		ty := g.typeOf(e)
		r := g.freshVal(st, "assert", ty)
		_ = v
		return r
	}
	g.fail("unsupported expression %T %s", e, g.exprText(e))
	return Val{}
}

// freshNumRe: the counter suffix of generated constants; obligation names must not depend on it
var freshNumRe = regexp.MustCompile(`_[0-9]+\b`)

func (g *FuncGen) derefStruct(st *State, p Val, pos token.Pos) Val {
	n, s, _ := structOf(p.Ty)
	g.oblige(st, "nil", "*"+freshNumRe.ReplaceAllString(p.T, ""), nil, fmt.Sprintf("(not (= %s 0))", p.T), pos, "")
	var sb strings.Builder
	sb.WriteString("(mk_S_" + namedKey(n))
	for i := 0; i < s.NumFields(); i++ {
		f := s.Field(i)
		h := g.heapGet(st, fieldKey(n, f.Name()), sortOf(f.Type()))
		sb.WriteString(fmt.Sprintf(" (select %s %s)", h, p.T))
	}
	if s.NumFields() == 0 {
		sb.WriteString(" 0")
	}
	sb.WriteString(")")
	return Val{sb.String(), n, "S_" + namedKey(n)}
}

func (g *FuncGen) evIdent(x *ast.Ident, st *State) Val {
	o := g.info.ObjectOf(x)
	switch ob := o.(type) {
	case *types.Nil:
		ty := g.typeOf(x)
		if b, ok := ty.(*types.Basic); ok && b.Kind() == types.UntypedNil {
			return Val{"0", ty, "Int"}
		}
		return Val{zeroOf(sortOf(ty)), ty, sortOf(ty)}
	case *types.Const:
		if v, ok := g.constVal(types.TypeAndValue{Type: ob.Type(), Value: ob.Val()}); ok {
			return v
		}
	case *types.Var:
		if v, ok := st.vars[ob]; ok {
			return v
		}
		if ob.Parent() == ob.Pkg().Scope() {
			return g.globalGet(st, ob)
		}
		// a local not yet assigned on this path (declared in an outer scope that was merged away)
		g.fail("variable %s has no value at %s", x.Name, g.P.Fset.Position(x.Pos()))
	case *types.Func:
		return g.freshVal(st, "func_"+x.Name, ob.Type())
	}
	if x.Name == "_" {
		return Val{"0", nil, "Int"}
	}
	g.fail("unsupported identifier %s (%T)", x.Name, o)
	return Val{}
}

func (g *FuncGen) evSelector(x *ast.SelectorExpr, st *State) Val {
	if sel, ok := g.info.Selections[x]; ok {
		switch sel.Kind() {
		case types.FieldVal:
			base := g.ev(x.X, st)
			path := sel.Index()
			cur := base
			for _, idx := range path {
				cur = g.fieldRead(st, cur, idx, x.Pos(), g.exprText(x))
			}
			return cur
		case types.MethodVal:
			return g.freshVal(st, "method_"+x.Sel.Name, g.typeOf(x))
		}
	}
	// package-qualified identifier
	o := g.info.ObjectOf(x.Sel)
	switch ob := o.(type) {
	case *types.Const:
		if v, ok := g.constVal(types.TypeAndValue{Type: ob.Type(), Value: ob.Val()}); ok {
			return v
		}
	case *types.Var:
		if isRepoPkg(ob.Pkg()) {
			return g.globalGet(st, ob)
		}
		// library global (io.EOF, os.ModePerm, binary.BigEndian ...): a fixed opaque constant
		name := "lg_" + sanitize(pkgShort(ob.Pkg())+"_"+ob.Name())
		if !g.declSeen[name] {
			g.declSeen[name] = true
			g.emit(fmt.Sprintf("(declare-const %s %s)", name, sortOf(ob.Type())))
			if types.Implements(ob.Type(), errorType()) || ob.Type().String() == "error" {
				g.emit(fmt.Sprintf("(assert (not (= %s 0)))", name))
			}
		}
		return Val{name, ob.Type(), sortOf(ob.Type())}
	case *types.Func:
		return g.freshVal(st, "func_"+x.Sel.Name, ob.Type())
	}
	g.fail("unsupported selector %s", g.exprText(x))
	return Val{}
}

func errorType() *types.Interface {
	return types.Universe.Lookup("error").Type().Underlying().(*types.Interface)
}

func isErrorType(t types.Type) bool {
	return t != nil && types.Identical(t, types.Universe.Lookup("error").Type())
}

func (g *FuncGen) evIndex(x *ast.IndexExpr, st *State) Val {
	base := g.ev(x.X, st)
	src := g.exprText(x)
	switch u := types.Unalias(base.Ty).Underlying().(type) {
	case *types.Map:
		k := g.ev(x.Index, st)
		has, val := g.mapArrays(st, u)
		_ = has
		v := Val{fmt.Sprintf("(select (select %s %s) %s)", val, base.T, k.T), u.Elem(), sortOf(u.Elem())}
		// reading a missing key yields the zero value
		z := zeroOf(v.S)
		t := fmt.Sprintf("(ite (and (not (= %s 0)) (select (select %s %s) %s)) %s %s)", base.T, has, base.T, k.T, v.T, z)
		r := Val{t, u.Elem(), v.S}
		return r
	}
	i := g.ev(x.Index, st)
	switch base.S {
	case "Bytes":
		g.oblige(st, "bounds", src, nil, fmt.Sprintf("(and (<= 0 %s) (< %s (blen %s)))", i.T, i.T, base.T), x.Pos(), src)
		v := Val{fmt.Sprintf("(bat %s %s)", base.T, i.T), types.Typ[types.Uint8], "Int"}
		g.fact(fmt.Sprintf("(and (<= 0 %s) (<= %s 255))", v.T, v.T))
		return v
	}
	if strings.HasPrefix(base.S, "(Sq ") {
		g.oblige(st, "bounds", src, nil, fmt.Sprintf("(and (<= 0 %s) (< %s (slen %s)))", i.T, i.T, base.T), x.Pos(), src)
		et := elemType(base.Ty)
		v := Val{fmt.Sprintf("(select (selems %s) %s)", base.T, i.T), et, sortOf(et)}
		g.typeFacts(st, v.T, et)
		return v
	}
	g.fail("unsupported index expression %s (sort %s)", src, base.S)
	return Val{}
}

func elemType(t types.Type) types.Type {
	switch u := types.Unalias(t).Underlying().(type) {
	case *types.Slice:
		return u.Elem()
	case *types.Array:
		return u.Elem()
	case *types.Basic:
		return types.Typ[types.Uint8]
	case *types.Pointer:
		return elemType(u.Elem())
	}
	return nil
}

func (g *FuncGen) mapArrays(st *State, m *types.Map) (has, val string) {
	key := "$map." + sanitize(m.String())
	ks := sortOf(m.Key())
	vs := sortOf(m.Elem())
	hk := key + ".has"
	vk := key + ".val"
	if _, ok := g.heapKeys[hk]; !ok {
		g.heapKeys[hk] = "(Array " + ks + " Bool)"
		g.heapKeys[vk] = "(Array " + ks + " " + vs + ")"
		g.emit(fmt.Sprintf("(declare-const %s_0 (Array Int (Array %s Bool)))", heapName(hk), ks))
		g.emit(fmt.Sprintf("(declare-const %s_0 (Array Int (Array %s %s)))", heapName(vk), ks, vs))
		g.mapWF(m, heapName(hk)+"_0", heapName(vk)+"_0", "alloc_0")
	}
	return g.heapGet(st, hk, g.heapKeys[hk]), g.heapGet(st, vk, g.heapKeys[vk])
}

func (g *FuncGen) evSlice(x *ast.SliceExpr, st *State) Val {
	base := g.ev(x.X, st)
	src := g.exprText(x)
	var lo, hi string
	lenT := ""
	switch {
	case base.S == "Bytes":
		lenT = fmt.Sprintf("(blen %s)", base.T)
	case strings.HasPrefix(base.S, "(Sq "):
		lenT = fmt.Sprintf("(slen %s)", base.T)
	default:
		g.fail("unsupported slice expression %s", src)
	}
	lo = "0"
	if x.Low != nil {
		lo = g.ev(x.Low, st).T
	}
	hi = lenT
	if x.High != nil {
		hi = g.ev(x.High, st).T
	}
	g.oblige(st, "bounds", src, nil, fmt.Sprintf("(and (<= 0 %s) (<= %s %s) (<= %s %s))", lo, lo, hi, hi, lenT), x.Pos(), src)
	if base.S == "Bytes" {
		if lo == "0" && hi == lenT {
			return base
		}
		return Val{fmt.Sprintf("(bsub %s %s %s)", base.T, lo, hi), base.Ty, "Bytes"}
	}
	if lo == "0" {
		return Val{fmt.Sprintf("(mkseq %s (selems %s))", hi, base.T), base.Ty, base.S}
	}
	return g.seqSlice(st, base, lo, hi)
}

// seqSlice: r = s[lo:hi] with image and pre-image axioms.
func (g *FuncGen) seqSlice(st *State, s Val, lo, hi string) Val {
	r := g.fresh("slc", s.S)
	g.assume(st, fmt.Sprintf("(= (slen %s) (- %s %s))", r, hi, lo))
	g.assume(st, fmt.Sprintf("(forall ((i Int)) (! (=> (and (<= 0 i) (< i (- %s %s))) (= (select (selems %s) i) (select (selems %s) (+ %s i)))) :pattern ((select (selems %s) i))))", hi, lo, r, s.T, lo, r))
	g.assume(st, fmt.Sprintf("(forall ((j Int)) (! (=> (and (<= %s j) (< j %s)) (= (select (selems %s) (- j %s)) (select (selems %s) j))) :pattern ((select (selems %s) j))))", lo, hi, r, lo, s.T, s.T))
	return Val{r, s.Ty, s.S}
}

func (g *FuncGen) evUnary(x *ast.UnaryExpr, st *State) Val {
	switch x.Op {
	case token.NOT:
		v := g.ev(x.X, st)
		return Val{"(not " + v.T + ")", v.Ty, "Bool"}
	case token.SUB:
		v := g.ev(x.X, st)
		return Val{"(- " + v.T + ")", v.Ty, "Int"}
	case token.ADD:
		return g.ev(x.X, st)
	case token.AND:
		if cl, ok := x.X.(*ast.CompositeLit); ok {
			return g.evComposite(cl, st, true)
		}
		// &b of a variable of a library struct type: the handle of that object
		if id, ok := unparen(x.X).(*ast.Ident); ok && isLibStruct(g.typeOf(id)) {
			v := g.ev(id, st)
			return Val{v.T, g.typeOf(x), "Int"}
		}
		// &x of a local or field: used only as an out-parameter of library calls; give an opaque pointer
		return g.freshVal(st, "addr", g.typeOf(x))
	}
	g.fail("unsupported unary operator %s", x.Op)
	return Val{}
}

func (g *FuncGen) evBinary(x *ast.BinaryExpr, st *State) Val {
	switch x.Op {
	case token.LAND, token.LOR:
		l := g.ev(x.X, st)
		// right operand evaluated only if needed: safety obligations under the refined path condition
		var stR *State
		if x.Op == token.LAND {
			stR = g.newPC(st, l.T)
		} else {
			stR = g.newPC(st, "(not "+l.T+")")
		}
		r := g.ev(x.Y, stR)
		// effects of the right operand on state are not supported (pure conditions only)
		op := "and"
		if x.Op == token.LOR {
			op = "or"
		}
		return Val{fmt.Sprintf("(%s %s %s)", op, l.T, r.T), types.Typ[types.Bool], "Bool"}
	}
	var l, r Val
	switch {
	case isNilIdent(g, x.Y):
		l = g.ev(x.X, st)
		r = Val{zeroOf(l.S), l.Ty, l.S}
	case isNilIdent(g, x.X):
		r = g.ev(x.Y, st)
		l = Val{zeroOf(r.S), r.Ty, r.S}
	default:
		l = g.ev(x.X, st)
		r = g.ev(x.Y, st)
	}
	ty := g.typeOf(x)
	src := g.exprText(x)
	switch x.Op {
	case token.EQL, token.NEQ:
		if l.S == "Bytes" && (isNilIdent(g, x.Y) || isNilIdent(g, x.X)) {
			// a nil []byte is identified with the empty one (stated assumption)
			eq := fmt.Sprintf("(= (blen %s) 0)", l.T)
			if isNilIdent(g, x.X) {
				eq = fmt.Sprintf("(= (blen %s) 0)", r.T)
			}
			if x.Op == token.NEQ {
				eq = "(not " + eq + ")"
			}
			return Val{eq, types.Typ[types.Bool], "Bool"}
		}
		if strings.HasPrefix(l.S, "(Sq ") && (isNilIdent(g, x.Y) || isNilIdent(g, x.X)) {
			eq := fmt.Sprintf("(= (slen %s) 0)", l.T)
			if isNilIdent(g, x.X) {
				eq = fmt.Sprintf("(= (slen %s) 0)", r.T)
			}
			if x.Op == token.NEQ {
				eq = "(not " + eq + ")"
			}
			return Val{eq, types.Typ[types.Bool], "Bool"}
		}
		eq := g.eqTerm(l, r)
		if x.Op == token.NEQ {
			eq = "(not " + eq + ")"
		}
		return Val{eq, types.Typ[types.Bool], "Bool"}
	case token.LSS, token.LEQ, token.GTR, token.GEQ:
		op := map[token.Token]string{token.LSS: "<", token.LEQ: "<=", token.GTR: ">", token.GEQ: ">="}[x.Op]
		if l.S == "Bytes" {
			return Val{fmt.Sprintf("(%s (rank %s) (rank %s))", op, l.T, r.T), types.Typ[types.Bool], "Bool"}
		}
		return Val{fmt.Sprintf("(%s %s %s)", op, l.T, r.T), types.Typ[types.Bool], "Bool"}
	case token.ADD:
		if l.S == "Bytes" {
			return Val{fmt.Sprintf("(bcat %s %s)", l.T, r.T), ty, "Bytes"}
		}
		t := fmt.Sprintf("(+ %s %s)", l.T, r.T)
		g.ovf(st, t, ty, x.Pos(), src)
		return Val{t, ty, "Int"}
	case token.SUB:
		t := fmt.Sprintf("(- %s %s)", l.T, r.T)
		g.ovf(st, t, ty, x.Pos(), src)
		return Val{t, ty, "Int"}
	case token.MUL:
		t := fmt.Sprintf("(* %s %s)", l.T, r.T)
		g.ovf(st, t, ty, x.Pos(), src)
		return Val{t, ty, "Int"}
	case token.QUO:
		g.oblige(st, "div", src, nil, fmt.Sprintf("(not (= %s 0))", r.T), x.Pos(), src)
		return Val{fmt.Sprintf("(tdiv %s %s)", l.T, r.T), ty, "Int"}
	case token.REM:
		g.oblige(st, "div", src, nil, fmt.Sprintf("(not (= %s 0))", r.T), x.Pos(), src)
		return Val{fmt.Sprintf("(tmod %s %s)", l.T, r.T), ty, "Int"}
	}
	g.fail("unsupported binary operator %s", x.Op)
	return Val{}
}

func (g *FuncGen) eqTerm(l, r Val) string {
	return fmt.Sprintf("(= %s %s)", l.T, r.T)
}

// ovf: machine arithmetic is modelled by mathematical integers; each + - * gets a range obligation.
func (g *FuncGen) ovf(st *State, t string, ty types.Type, pos token.Pos, src string) {
	if ty == nil {
		return
	}
	lo, hi, ok := intRange(ty)
	if !ok {
		return
	}
	g.oblige(st, "ovf", src, nil, fmt.Sprintf("(and (<= %s %s) (<= %s %s))", lo, t, t, hi), pos, src)
}

func (g *FuncGen) evComposite(x *ast.CompositeLit, st *State, addr bool) Val {
	ty := g.typeOf(x)
	switch u := types.Unalias(ty).Underlying().(type) {
	case *types.Struct:
		n, _, ok := structOf(ty)
		if !ok || !isRepoPkg(n.Obj().Pkg()) {
			// library struct literal (e.g. cobra.Command): opaque
			if addr {
				return g.allocOpaque(st, g.typeOf(x))
			}
			return g.freshVal(st, "libstruct", ty)
		}
		vals := make([]string, u.NumFields())
		for i := 0; i < u.NumFields(); i++ {
			vals[i] = zeroOf(sortOf(u.Field(i).Type()))
		}
		for i, el := range x.Elts {
			if kv, ok := el.(*ast.KeyValueExpr); ok {
				name := kv.Key.(*ast.Ident).Name
				for j := 0; j < u.NumFields(); j++ {
					if u.Field(j).Name() == name {
						vals[j] = coerce(g.ev(kv.Value, st), u.Field(j).Type()).T
					}
				}
			} else {
				vals[i] = coerce(g.ev(el, st), u.Field(i).Type()).T
			}
		}
		if addr {
			r := g.alloc(st, n)
			for i := 0; i < u.NumFields(); i++ {
				key := fieldKey(n, u.Field(i).Name())
				h := g.heapGet(st, key, sortOf(u.Field(i).Type()))
				st.heap[key] = fmt.Sprintf("(store %s %s %s)", h, r, vals[i])
			}
			return Val{r, types.NewPointer(ty), "Int"}
		}
		t := "(mk_S_" + namedKey(n)
		for _, v := range vals {
			t += " " + v
		}
		if u.NumFields() == 0 {
			t += " 0"
		}
		t += ")"
		return Val{t, ty, "S_" + namedKey(n)}
	case *types.Slice, *types.Array:
		s := sortOf(ty)
		if s == "Bytes" {
			cur := "bempty"
			for _, el := range x.Elts {
				v := g.ev(el, st)
				cur = fmt.Sprintf("(bcat %s (byte1 %s))", cur, v.T)
			}
			if len(x.Elts) == 1 {
				cur = fmt.Sprintf("(byte1 %s)", g.ev(x.Elts[0], st).T)
			}
			return Val{cur, ty, s}
		}
		inner := s[4 : len(s)-1]
		arr := zeroArr(inner)
		for i, el := range x.Elts {
			v := g.ev(el, st)
			arr = fmt.Sprintf("(store %s %d %s)", arr, i, v.T)
		}
		return Val{fmt.Sprintf("(mkseq %d %s)", len(x.Elts), arr), ty, s}
	case *types.Map:
		r := g.allocMap(st, u)
		if len(x.Elts) > 0 {
			g.fail("non-empty map literal unsupported")
		}
		return Val{r, ty, "Int"}
	}
	g.fail("unsupported composite literal of type %v", ty)
	return Val{}
}

// alloc returns a fresh non-nil reference.
func (g *FuncGen) alloc(st *State, n *types.Named) string {
	r := g.fresh("new_"+n.Obj().Name(), "Int")
	al := st.heap["$alloc"]
	g.assume(st, fmt.Sprintf("(and (not (= %s 0)) (not (select %s %s)))", r, al, r))
	st.heap["$alloc"] = fmt.Sprintf("(store %s %s true)", al, r)
	return r
}

func (g *FuncGen) allocOpaque(st *State, ty types.Type) Val {
	r := g.fresh("newobj", "Int")
	al := st.heap["$alloc"]
	g.assume(st, fmt.Sprintf("(and (not (= %s 0)) (not (select %s %s)))", r, al, r))
	st.heap["$alloc"] = fmt.Sprintf("(store %s %s true)", al, r)
	return Val{r, ty, "Int"}
}

func (g *FuncGen) allocMap(st *State, m *types.Map) string {
	r := g.fresh("newmap", "Int")
	al := st.heap["$alloc"]
	g.assume(st, fmt.Sprintf("(and (not (= %s 0)) (not (select %s %s)))", r, al, r))
	st.heap["$alloc"] = fmt.Sprintf("(store %s %s true)", al, r)
	has, _ := g.mapArrays(st, m)
	hk := "$map." + sanitize(m.String()) + ".has"
	st.heap[hk] = fmt.Sprintf("(store %s %s ((as const (Array %s Bool)) false))", has, r, sortOf(m.Key()))
	return r
}

func isNilIdent(g *FuncGen, e ast.Expr) bool {
	id, ok := unparen(e).(*ast.Ident)
	if !ok {
		return false
	}
	_, isNil := g.info.ObjectOf(id).(*types.Nil)
	return isNil
}

// coerce adapts an untyped nil to the sort of its destination.
func coerce(v Val, to types.Type) Val {
	if b, ok := v.Ty.(*types.Basic); ok && b.Kind() == types.UntypedNil && to != nil {
		s := sortOf(to)
		return Val{zeroOf(s), to, s}
	}
	return v
}

// mapWF: typed-heap invariant for maps holding references: stored values are nil or allocated.
func (g *FuncGen) mapWF(m *types.Map, has, val, alloc string) {
	if !isRefType(m.Elem()) {
		return
	}
	ks := sortOf(m.Key())
	g.emit(fmt.Sprintf("(assert (forall ((r Int) (k %s)) (! (=> (and (select %s r) (select (select %s r) k)) (or (= (select (select %s r) k) 0) (select %s (select (select %s r) k)))) :pattern ((select (select %s r) k)))))", ks, alloc, has, val, alloc, val, val))
}

// isLibStruct: a named struct type declared outside the repository (bytes.Buffer, ...), used as a value
func isLibStruct(t types.Type) bool {
	n, ok := types.Unalias(t).(*types.Named)
	if !ok || n.Obj().Pkg() == nil || isRepoPkg(n.Obj().Pkg()) {
		return false
	}
	_, isStruct := n.Underlying().(*types.Struct)
	return isStruct && sortOf(t) == "Int"
}
