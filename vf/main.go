package main

import (
	"flag"
	"fmt"
	"os"
	"sort"
	"strings"
)

func fullPrelude(p *Prog) string {
	if os.Getenv("VF_NOSLICE") != "" {
		return preludeSig + "\n" + p.structDecls() + preludeAx + "\n"
	}
	return preludeSig + "\n" + p.structDecls() + axiomMarker
}

func leanPrelude(p *Prog) string {
	return preludeSig + "\n" + p.structDecls()
}

func main() {
	if len(os.Args) < 2 {
		fmt.Println("usage: vf run|check|dump ...")
		os.Exit(2)
	}
	switch os.Args[1] {
	case "run":
		cmdRun(os.Args[2:])
	case "dump":
		cmdDump(os.Args[2:])
	case "check":
		cmdCheck(os.Args[2:])
	case "lock":
		cmdLock(os.Args[2:])
	case "replay":
		cmdReplay(os.Args[2:])
	default:
		fmt.Println("unknown command")
		os.Exit(2)
	}
}

func repoDir() string {
	if d := os.Getenv("VF_REPO"); d != "" {
		return d
	}
	return "/repo"
}

// matchKey: does the function key match one of the comma-separated patterns (exact, prefix*, all)?
func matchKey(pat, k string) bool {
	for _, pt := range strings.Split(pat, ",") {
		if pt == "all" || k == pt || (strings.HasSuffix(pt, "*") && strings.HasPrefix(k, strings.TrimSuffix(pt, "*"))) {
			return true
		}
	}
	return false
}

func selectFuncs(p *Prog, pat string) []*FuncInfo {
	var out []*FuncInfo
	var keys []string
	for k := range p.Funcs {
		keys = append(keys, k)
	}
	sort.Strings(keys)
	pats := strings.Split(pat, ",")
	for _, k := range keys {
		for _, pt := range pats {
			if pt == "all" || k == pt || (strings.HasSuffix(pt, "*") && strings.HasPrefix(k, strings.TrimSuffix(pt, "*"))) {
				out = append(out, p.Funcs[k])
				break
			}
		}
	}
	return out
}

// vf run --funcs store.Index.GetEntry[,..] : generate and solve, print every obligation
func cmdRun(args []string) {
	fs := flag.NewFlagSet("run", flag.ExitOnError)
	funcs := fs.String("funcs", "all", "comma-separated function keys, prefix* or all")
	timeout := fs.Int("timeout", 10, "solver timeout (s)")
	all := fs.Bool("all-solvers", false, "run all solvers")
	verbose := fs.Bool("v", false, "print discharged obligations too")
	fs.Parse(args)
	p, err := loadProg(repoDir())
	if err != nil {
		fmt.Println("load error:", err)
		os.Exit(2)
	}
	loadPreludeSigs(preludeSig)
	gens := generate(p, func(fi *FuncInfo) bool { return matchKey(*funcs, fi.Key) })
	s, err := newSolver(*timeout, *all)
	if err != nil {
		fmt.Println(err)
		os.Exit(2)
	}
	defer s.close()
	s.prelude, s.lean = fullPrelude(p), leanPrelude(p)
	s.solveAll(gens, nil)
	nOK, nBad, nUnbound := 0, 0, 0
	for _, g := range gens {
		if g.unbound != "" {
			nUnbound++
			fmt.Printf("UNBOUND %s: %s\n", g.F.Key, g.unbound)
			continue
		}
		for _, o := range g.obls {
			ok := o.Status == "unsat"
			if o.Kind == "cover" {
				ok = o.Status != "unsat"
			}
			if ok {
				nOK++
				if *verbose {
					fmt.Printf("ok    %-70s %s %.2fs\n", o.Name, o.Solver, o.TimeS)
				}
			} else {
				nBad++
				fmt.Printf("FAIL  %-70s %s %s %v  @%s  {%s}\n", o.Name, o.Status, o.Solver, o.Outputs, o.Pos, o.Src)
			}
		}
	}
	fmt.Printf("functions=%d unbound=%d obligations=%d discharged=%d failed=%d solver_time=%.1fs\n", len(gens), nUnbound, nOK+nBad, nOK, nBad, s.timeS)
}

// vf dump --func key [--obl name] : print the SMT query
func cmdDump(args []string) {
	fs := flag.NewFlagSet("dump", flag.ExitOnError)
	fn := fs.String("func", "", "function key")
	obl := fs.String("obl", "", "obligation name (default: list)")
	fs.Parse(args)
	p, err := loadProg(repoDir())
	if err != nil {
		fmt.Println("load error:", err)
		os.Exit(2)
	}
	loadPreludeSigs(preludeSig)
	var g *FuncGen
	if short, isLem := strings.CutSuffix(*fn, ".lemmas"); isLem && p.Pkgs[short] != nil {
		g = p.genLemmas(&FuncInfo{Key: *fn, Short: "lemmas", Pkg: p.Pkgs[short]})
	} else {
		fi, ok := p.Funcs[*fn]
		if !ok {
			fmt.Println("no such function")
			os.Exit(2)
		}
		g = p.genFunc(fi)
	}
	if g.unbound != "" {
		fmt.Println("UNBOUND:", g.unbound)
	}
	for _, o := range g.obls {
		if *obl == "" {
			fmt.Println(o.Name, " @", o.Pos, " {", o.Src, "}")
		} else if o.Name == *obl {
			fmt.Print(g.vcText(o, fullPrelude(p)))
		}
	}
	for _, n := range g.notes {
		fmt.Println("; note:", n)
	}
}
