package main

import (
	"crypto/sha256"
	"fmt"
	"go/ast"
	"go/token"
	"go/types"
	"os"
	"regexp"
	"sort"
	"strings"
	"sync"

	"golang.org/x/tools/go/packages"
)

const repoModule = "github.com/JunNishimura/Goit"

// ---------- values ----------

type Val struct {
	T  string     // SMT term
	Ty types.Type // Go type (may be nil for spec-only values)
	S  string     // SMT sort
}

// ---------- program database ----------

type FuncInfo struct {
	Key     string // "store.Index.GetEntry", "cmd.addCmd.RunE", "object.GetNode"
	Short   string // key without package: "Index.GetEntry"
	Pkg     *packages.Package
	Obj     *types.Func // nil for closures
	Sig     *types.Signature
	Body    *ast.BlockStmt
	Recv    *ast.Field
	Type    *ast.FuncType
	Spec    *FuncSpec
	Decl    ast.Node
	Writes  map[string]bool // field keys / globals possibly written, transitive
	Allocs  map[string]bool // struct type keys possibly allocated, transitive
	callees map[*FuncInfo]bool
}

type Prog struct {
	Fset       *token.FileSet
	Pkgs       map[string]*packages.Package // by short name: store, object, cmd ...
	Funcs      map[string]*FuncInfo
	ByObj      map[*types.Func]*FuncInfo
	Specs      map[string]*PkgSpec // by pkg short name
	Structs    []*types.Named      // repo struct types in dependency order
	MapTypes   []*types.Map
	structSeen map[string]bool
	Renames    map[string]map[string]string // function key -> name recorded in names.lock -> current name
	callMu     sync.Mutex
	InlinedAt  map[string]int // contract-less callee -> number of call sites where its body was executed in place
	HavocAt    map[string]int // contract-less callee -> number of call sites that fell back to the havoc model
}

func (p *Prog) noteCall(key string, inlined bool) {
	p.callMu.Lock()
	defer p.callMu.Unlock()
	if p.InlinedAt == nil {
		p.InlinedAt, p.HavocAt = map[string]int{}, map[string]int{}
	}
	if inlined {
		p.InlinedAt[key]++
	} else {
		p.HavocAt[key]++
	}
}

func pkgShort(p *types.Package) string {
	if p == nil {
		return ""
	}
	path := p.Path()
	if path == repoModule {
		return "main"
	}
	if i := strings.LastIndex(path, "/"); i >= 0 {
		return path[i+1:]
	}
	return path
}

func isRepoPkg(p *types.Package) bool {
	return p != nil && strings.HasPrefix(p.Path(), repoModule)
}

// ---------- sorts ----------

func isByte(t types.Type) bool {
	b, ok := t.Underlying().(*types.Basic)
	return ok && (b.Kind() == types.Byte || b.Kind() == types.Uint8)
}

func namedKey(n *types.Named) string {
	return pkgShort(n.Obj().Pkg()) + "_" + n.Obj().Name()
}

func isTime(t types.Type) bool {
	if n, ok := t.(*types.Named); ok {
		return n.Obj().Pkg() != nil && n.Obj().Pkg().Path() == "time" && n.Obj().Name() == "Time"
	}
	return false
}

func sortOf(t types.Type) string {
	if t == nil {
		return "Int"
	}
	if a, ok := t.(*types.Alias); ok {
		return sortOf(types.Unalias(a))
	}
	if isTime(t) {
		return "Time"
	}
	if n, ok := t.(*types.Named); ok {
		if _, isStruct := n.Underlying().(*types.Struct); isStruct {
			if isRepoPkg(n.Obj().Pkg()) {
				return "S_" + namedKey(n)
			}
			return "Int" // opaque library struct value
		}
	}
	switch u := t.Underlying().(type) {
	case *types.Basic:
		switch {
		case u.Info()&types.IsInteger != 0:
			return "Int"
		case u.Info()&types.IsBoolean != 0:
			return "Bool"
		case u.Info()&types.IsString != 0:
			return "Bytes"
		case u.Info()&types.IsFloat != 0:
			return "Real"
		}
		return "Int"
	case *types.Pointer:
		return "Int"
	case *types.Slice:
		if isByte(u.Elem()) {
			return "Bytes"
		}
		return "(Sq " + sortOf(u.Elem()) + ")"
	case *types.Array:
		if isByte(u.Elem()) {
			return "Bytes"
		}
		return "(Sq " + sortOf(u.Elem()) + ")"
	}
	return "Int"
}

func isRefType(t types.Type) bool {
	if t == nil {
		return false
	}
	switch t.Underlying().(type) {
	case *types.Pointer, *types.Map:
		return true
	}
	return false
}

// zeroOfType: the zero value of a type; an array has its length ("var c [4]byte" is four zero bytes, not an empty string)
func zeroOfType(t types.Type) string {
	if a, ok := types.Unalias(t).Underlying().(*types.Array); ok {
		if isByte(a.Elem()) {
			if a.Len() == 0 {
				return "bempty"
			}
			return fmt.Sprintf("(bzeros %d)", a.Len())
		}
		return fmt.Sprintf("(mkseq %d %s)", a.Len(), zeroArr(sortOf(a.Elem())))
	}
	return zeroOf(sortOf(t))
}

func zeroOf(s string) string {
	switch {
	case s == "Int":
		return "0"
	case s == "Bool":
		return "false"
	case s == "Bytes":
		return "bempty"
	case s == "Real":
		return "0.0"
	case s == "Time":
		return "time_zero"
	case strings.HasPrefix(s, "(Sq "):
		inner := s[4 : len(s)-1]
		return fmt.Sprintf("(mkseq 0 %s)", zeroArr(inner))
	case strings.HasPrefix(s, "S_"):
		return "zero_" + s
	}
	return "0"
}

// intRange returns lo, hi (inclusive) for narrow integer types; ok=false for int/int64.
func intRange(t types.Type) (lo, hi string, ok bool) {
	b, isB := t.Underlying().(*types.Basic)
	if !isB {
		return "", "", false
	}
	switch b.Kind() {
	case types.Uint8:
		return "0", "255", true
	case types.Uint16:
		return "0", "65535", true
	case types.Uint32:
		return "0", "4294967295", true
	case types.Uint, types.Uint64, types.Uintptr:
		return "0", "18446744073709551615", true
	case types.Int8:
		return "(- 128)", "127", true
	case types.Int16:
		return "(- 32768)", "32767", true
	case types.Int32:
		return "(- 2147483648)", "2147483647", true
	case types.Int, types.Int64:
		return "(- 9223372036854775808)", "9223372036854775807", true
	}
	return "", "", false
}

// ---------- struct registry ----------

func (p *Prog) registerStruct(n *types.Named) {
	if p.structSeen == nil {
		p.structSeen = map[string]bool{}
	}
	k := namedKey(n)
	if p.structSeen[k] {
		return
	}
	p.structSeen[k] = true
	st := n.Underlying().(*types.Struct)
	for i := 0; i < st.NumFields(); i++ {
		p.registerTypeDeps(st.Field(i).Type())
	}
	p.Structs = append(p.Structs, n)
}

func (p *Prog) registerTypeDeps(t types.Type) {
	t = types.Unalias(t)
	if n, ok := t.(*types.Named); ok {
		if _, isStruct := n.Underlying().(*types.Struct); isStruct && isRepoPkg(n.Obj().Pkg()) {
			p.registerStruct(n)
		}
		return
	}
	switch u := t.(type) {
	case *types.Slice:
		p.registerTypeDeps(u.Elem())
	case *types.Array:
		p.registerTypeDeps(u.Elem())
	case *types.Pointer:
		// pointer fields do not create a value dependency, but the struct must exist for heap fields
		if n, ok := types.Unalias(u.Elem()).(*types.Named); ok {
			if _, isStruct := n.Underlying().(*types.Struct); isStruct && isRepoPkg(n.Obj().Pkg()) {
				// defer: register after (no cycle problem because Ref is Int)
				defer p.registerStruct(n)
			}
		}
	}
}

func fieldKey(n *types.Named, f string) string { return namedKey(n) + "." + f }

func heapName(key string) string {
	return "H_" + strings.NewReplacer(".", "_", "$", "G").Replace(key)
}

// structDecls emits datatype declarations for all repo structs plus zero constants.
func (p *Prog) structDecls() string {
	var sb strings.Builder
	for _, n := range p.Structs {
		st := n.Underlying().(*types.Struct)
		s := "S_" + namedKey(n)
		sb.WriteString(fmt.Sprintf("(declare-datatypes ((%s 0)) (((mk_%s", s, s))
		for i := 0; i < st.NumFields(); i++ {
			f := st.Field(i)
			sb.WriteString(fmt.Sprintf(" (%s_%s %s)", s, f.Name(), sortOf(f.Type())))
		}
		if st.NumFields() == 0 {
			sb.WriteString(fmt.Sprintf(" (%s_dummy Int)", s))
		}
		sb.WriteString("))))\n")
		sb.WriteString(fmt.Sprintf("(define-fun zero_%s () %s (mk_%s", s, s, s))
		for i := 0; i < st.NumFields(); i++ {
			sb.WriteString(" " + zeroOf(sortOf(st.Field(i).Type())))
		}
		if st.NumFields() == 0 {
			sb.WriteString(" 0")
		}
		sb.WriteString("))\n")
	}
	return sb.String()
}

// ---------- state ----------

type State struct {
	vars map[types.Object]Val
	heap map[string]string // heap key -> current array term
	pc   string
}

func (s *State) clone() *State {
	n := &State{vars: make(map[types.Object]Val, len(s.vars)), heap: make(map[string]string, len(s.heap)), pc: s.pc}
	for k, v := range s.vars {
		n.vars[k] = v
	}
	for k, v := range s.heap {
		n.heap[k] = v
	}
	return n
}

// ---------- obligations ----------

type Obligation struct {
	Name     string
	Func     string
	Kind     string
	Label    string
	Tags     []string
	traceLen int
	noFault  string // the $rdfail term of the obligation's state: assumed false (empty: the state never met a read)
	pc       string
	goal     string
	Pos      string
	Src      string // source text of the asserted clause / expression
	// results
	Hint    string // strategy recorded in obligations.lock (solver name or case-split)
	Status  string // unsat (discharged), sat, unknown, timeout, error
	Solver  string
	TimeS   float64
	Model   string
	Outputs map[string]string
}

// FuncGen: verification-condition generation for one function.
type FuncGen struct {
	P           *Prog
	F           *FuncInfo
	trace       []string
	nfresh      int
	obls        []*Obligation
	occ         map[string]int
	factSeen    map[string]bool
	lits        map[string]string // string literal -> const name
	litOrder    []string
	heapKeys    map[string]string // heap key -> sort of the array
	entry       *State
	results     []*types.Var
	resVals     []types.Object
	returns     []*State
	quiet       int // >0: spec evaluation, no safety obligations
	loopOrd     int
	afterCount  map[string]int // calls seen so far per callee name (for "after <callee>#k: assert")
	notes       []string // assumptions / uncontracted callees etc.
	unbound     string   // non-empty: function could not be lowered
	info        *types.Info
	extraDecl   []string // uninterpreted functions declared on demand
	declSeen    map[string]bool
	curAlloc0   string
	maxTrace    int
	orParts     map[string][]string // merged path condition -> its alternatives
	andParent   map[string]string   // refined path condition -> the one it refines
	noAssume    bool                // true while exit obligations are emitted
	noFacts     int                 // >0: terms mention bound variables, no typing facts may be emitted
	axiomHeap   map[string]string   // non-nil while an axiom is evaluated: heap key -> array sort (arrays are bound variables)
	inlineOrd   int
	lemmaPkg    string      // non-empty: this generator proves the lemmas of that package
	lemmaIdx    int         // index (in the package's axiom list) of the lemma being proved
	inlineStack []*FuncInfo // contract-less callees being executed in place
}

type unboundErr struct{ msg string }

func (g *FuncGen) fail(format string, a ...interface{}) {
	panic(unboundErr{fmt.Sprintf(format, a...)})
}

func (g *FuncGen) fresh(prefix, srt string) string {
	g.nfresh++
	n := fmt.Sprintf("%s_%d", sanitize(prefix), g.nfresh)
	g.trace = append(g.trace, fmt.Sprintf("(declare-const %s %s)", n, srt))
	return n
}

func sanitize(s string) string {
	var sb strings.Builder
	for _, c := range s {
		if (c >= 'a' && c <= 'z') || (c >= 'A' && c <= 'Z') || (c >= '0' && c <= '9') || c == '_' {
			sb.WriteRune(c)
		} else {
			sb.WriteRune('_')
		}
	}
	if sb.Len() == 0 {
		return "v"
	}
	return sb.String()
}

func (g *FuncGen) emit(s string) { g.trace = append(g.trace, s) }

// assume adds a fact valid under the path condition of st.
func (g *FuncGen) assume(st *State, phi string) {
	if phi == "true" {
		return
	}
	if st == nil || st.pc == "true" {
		g.emit("(assert " + phi + ")")
	} else {
		g.emit("(assert (=> " + st.pc + " " + phi + "))")
	}
}

// fact adds an unconditional typing fact (deduplicated).
func (g *FuncGen) fact(phi string) {
	if g.factSeen[phi] {
		return
	}
	g.factSeen[phi] = true
	g.emit("(assert " + phi + ")")
}

// typeFacts records what the Go type guarantees about a term.
func (g *FuncGen) typeFacts(st *State, t string, ty types.Type) {
	if ty == nil || g.axiomHeap != nil || g.noFacts > 0 {
		return
	}
	s := sortOf(ty)
	switch {
	case s == "Int":
		if _, isB := ty.Underlying().(*types.Basic); isB {
			if lo, hi, ok := intRange(ty); ok {
				g.fact(fmt.Sprintf("(and (<= %s %s) (<= %s %s))", lo, t, t, hi))
			}
		} else if isRefType(ty) && st != nil {
			// no dangling references: nil or allocated
			g.assume(st, fmt.Sprintf("(or (= %s 0) (select %s %s))", t, st.heap["$alloc"], t))
		}
	case strings.HasPrefix(s, "(Sq "):
		g.fact(fmt.Sprintf("(and (<= 0 (slen %s)) (<= (slen %s) 2147483647))", t, t))
	case s == "Bytes":
		// A-MEM: a string or []byte value of the program is shorter than 2^47 bytes
		g.fact(fmt.Sprintf("(<= (blen %s) 140737488355328)", t))
	}
}

func (g *FuncGen) freshVal(st *State, prefix string, ty types.Type) Val {
	s := sortOf(ty)
	n := g.fresh(prefix, s)
	g.typeFacts(st, n, ty)
	g.seqWF(st, n, ty)
	return Val{n, ty, s}
}

func (g *FuncGen) heapGet(st *State, key, elemSort string) string {
	if g.axiomHeap != nil {
		g.axiomHeap[key] = "(Array Int " + elemSort + ")"
		return "QH_" + sanitize(key)
	}
	if h, ok := st.heap[key]; ok {
		return h
	}
	// declared lazily, but must be identical for every state: use the entry name
	n := heapName(key) + "_0"
	if _, ok := g.heapKeys[key]; !ok {
		g.heapKeys[key] = elemSort
		g.emit(fmt.Sprintf("(declare-const %s (Array Int %s))", n, elemSort))
		g.heapWF(key, n, "alloc_0")
	}
	if g.entry != nil {
		if _, ok := g.entry.heap[key]; !ok {
			g.entry.heap[key] = n
		}
	}
	st.heap[key] = n
	return n
}

func (g *FuncGen) newPC(st *State, cond string) *State {
	n := st.clone()
	if cond == "true" {
		return n
	}
	name := g.fresh("pc", "Bool")
	if st.pc == "true" {
		g.emit(fmt.Sprintf("(assert (= %s %s))", name, cond))
	} else {
		g.emit(fmt.Sprintf("(assert (= %s (and %s %s)))", name, st.pc, cond))
	}
	n.pc = name
	if g.andParent == nil {
		g.andParent = map[string]string{}
	}
	g.andParent[name] = st.pc
	return n
}

// merge joins control-flow paths into one state.
func (g *FuncGen) merge(states []*State) *State {
	var live []*State
	for _, s := range states {
		if s != nil {
			live = append(live, s)
		}
	}
	if len(live) == 0 {
		return nil
	}
	if len(live) == 1 {
		return live[0]
	}
	res := &State{vars: map[types.Object]Val{}, heap: map[string]string{}}
	var pcs []string
	for _, s := range live {
		pcs = append(pcs, s.pc)
	}
	pcn := g.fresh("pc", "Bool")
	g.emit(fmt.Sprintf("(assert (= %s (or %s)))", pcn, strings.Join(pcs, " ")))
	res.pc = pcn
	if g.orParts == nil {
		g.orParts = map[string][]string{}
	}
	g.orParts[pcn] = pcs
	// variables present in all states
	var objs []types.Object
	for o := range live[0].vars {
		all := true
		for _, s := range live[1:] {
			if _, ok := s.vars[o]; !ok {
				all = false
				break
			}
		}
		if all {
			objs = append(objs, o)
		}
	}
	sort.Slice(objs, func(i, j int) bool {
		if objs[i].Pos() != objs[j].Pos() {
			return objs[i].Pos() < objs[j].Pos()
		}
		return objs[i].Name() < objs[j].Name()
	})
	for _, o := range objs {
		v0 := live[0].vars[o]
		same := true
		for _, s := range live[1:] {
			if s.vars[o].T != v0.T {
				same = false
				break
			}
		}
		if same {
			res.vars[o] = v0
			continue
		}
		m := g.fresh("m_"+o.Name(), v0.S)
		for _, s := range live {
			g.emit(fmt.Sprintf("(assert (=> %s (= %s %s)))", s.pc, m, s.vars[o].T))
		}
		res.vars[o] = Val{m, v0.Ty, v0.S}
	}
	// heap
	keys := map[string]bool{}
	for _, s := range live {
		for k := range s.heap {
			keys[k] = true
		}
	}
	var ks []string
	for k := range keys {
		ks = append(ks, k)
	}
	sort.Strings(ks)
	for _, k := range ks {
		var terms []string
		same := true
		for _, s := range live {
			h, ok := s.heap[k]
			if !ok {
				h = heapName(k) + "_0"
				if g.entry != nil {
					if e, ok2 := g.entry.heap[k]; ok2 {
						h = e
					}
				}
			}
			terms = append(terms, h)
			if h != terms[0] {
				same = false
			}
		}
		if same {
			res.heap[k] = terms[0]
			continue
		}
		srt := g.heapSort(k)
		m := g.fresh("mh_"+heapName(k), srt)
		for i, s := range live {
			g.emit(fmt.Sprintf("(assert (=> %s (= %s %s)))", s.pc, m, terms[i]))
		}
		res.heap[k] = m
	}
	return res
}

func (g *FuncGen) heapSort(key string) string {
	if key == "$alloc" {
		return "(Array Int Bool)"
	}
	if s, ok := ghostKeys[key]; ok {
		return s
	}
	if s, ok := g.heapKeys[key]; ok {
		if strings.HasPrefix(key, "$g.") {
			return s
		}
		return "(Array Int " + s + ")"
	}
	if s, ok := g.P.fieldSort(key); ok {
		return "(Array Int " + s + ")"
	}
	return "(Array Int Int)"
}

// ---------- obligations ----------

func (g *FuncGen) oblige(st *State, kind, label string, tags []string, goal string, pos token.Pos, src string) {
	if g.quiet > 0 || st == nil {
		return
	}
	if goal == "true" {
		return
	}
	base := kind
	if label != "" {
		base = kind + "[" + label + "]"
	}
	k := g.occ[base]
	g.occ[base] = k + 1
	name := g.F.Key + "#" + base
	if k > 0 {
		name = fmt.Sprintf("%s#%d", name, k)
	}
	o := &Obligation{Name: name, Func: g.F.Key, Kind: kind, Label: label, Tags: tags, traceLen: len(g.trace), pc: st.pc, goal: goal, Src: src}
	// every obligation other than the reporting ones (C16) is about runs in which no read of an existing path has failed
	noFault := ""
	if rd, ok := st.heap["$rdfail"]; ok && kind != "iofail" && !strings.HasPrefix(kind, "iofail-keep/") {
		o.noFault = rd
		noFault = rd
	}
	if pos.IsValid() {
		p := g.P.Fset.Position(pos)
		o.Pos = fmt.Sprintf("%s:%d", strings.TrimPrefix(p.Filename, "/repo/"), p.Line)
	}
	g.obls = append(g.obls, o)
	// assert-then-assume (postconditions and frames at the exit are independent of each other: not assumed)
	if !g.noAssume {
		if noFault != "" {
			// proved for fault-free runs only: that is all a later reporting obligation may take from it
			g.assume(st, fmt.Sprintf("(=> (not %s) %s)", noFault, goal))
		} else {
			g.assume(st, goal)
		}
	}
}

func (g *FuncGen) exprText(e ast.Expr) string {
	return types.ExprString(e)
}

// vcText renders the SMT query of an obligation.
// frameTrace: for a frame obligation ("field F is unchanged on objects that existed at entry") only the history of F's
// heap array, the allocation chain and the path conditions matter. Dropping the other hypotheses is sound and turns a
// query of thousands of assertions into one of a few dozen. Kept: every declaration, every assertion that mentions a
// version of F's array or an alloc array, and the definitions of the path conditions.
var symTokRe = regexp.MustCompile(`[A-Za-z_$][A-Za-z0-9_.$]*`)

func frameTrace(trace []string, goal string) []string {
	fam := map[string]bool{}
	base := func(sym string) string {
		// H_x_0, hv_H_x_12, mh_H_x_7 -> H_x
		t := strings.TrimPrefix(strings.TrimPrefix(sym, "hv_"), "mh_")
		if !strings.HasPrefix(t, "H_") {
			return ""
		}
		if i := strings.LastIndex(t, "_"); i > 0 {
			return t[:i]
		}
		return t
	}
	for _, t := range symTokRe.FindAllString(goal, -1) {
		if b := base(t); b != "" {
			fam[b] = true
		}
	}
	if len(fam) == 0 {
		return trace
	}
	fam["H_Galloc"] = true // merged allocation arrays
	var out []string
	for _, l := range trace {
		if !strings.HasPrefix(l, "(assert") {
			out = append(out, l)
			continue
		}
		keep := false
		for _, t := range symTokRe.FindAllString(l, -1) {
			if b := base(t); (b != "" && fam[b]) || strings.HasPrefix(t, "alloc_") {
				keep = true
				break
			}
		}
		if !keep {
			// allocation chain and path-condition definitions
			if strings.HasPrefix(l, "(assert (forall ((r Int)) (! (=> (select alloc_") || strings.HasPrefix(l, "(assert (= pc_") || strings.HasPrefix(l, "(assert (not (select alloc_") {
				keep = true
			}
			// the chain of the read-fault flag: a callee's frame clause is available only where the flag is down
			if strings.Contains(l, "H_Grdfail") && len(l) < 400 {
				keep = true
			}
		}
		if keep {
			out = append(out, l)
		}
	}
	return out
}

func (g *FuncGen) vcText(o *Obligation, prelude string) string {
	var sb strings.Builder
	if strings.Contains(prelude, axiomMarker) {
		// slice the axioms to what this query can use
		var body strings.Builder
		for _, l := range g.trace[:o.traceLen] {
			body.WriteString(l)
			body.WriteString("\n")
		}
		body.WriteString(o.goal)
		prelude = strings.Replace(prelude, axiomMarker, sliceAxioms(body.String()), 1)
	}
	sb.WriteString(prelude)
	for _, d := range g.extraDecl {
		sb.WriteString(d)
		sb.WriteString("\n")
	}
	// heap arrays declared late must be visible: the trace contains their declarations in order,
	// but a declaration may come after traceLen if first used later; those are not needed then.
	tr := g.trace[:o.traceLen]
	if strings.HasPrefix(o.Kind, "frame") && os.Getenv("VF_NOFRAMESLICE") == "" {
		tr = frameTrace(tr, o.goal)
	}
	for _, l := range tr {
		sb.WriteString(l)
		sb.WriteString("\n")
	}
	sb.WriteString("(assert " + o.pc + ")\n")
	if o.noFault != "" {
		sb.WriteString("(assert (not " + o.noFault + "))\n")
	}
	sb.WriteString("(assert (not " + o.goal + "))\n")
	sb.WriteString("(check-sat)\n")
	return sb.String()
}

const axiomMarker = ";;AXIOMS;;\n"

func hashText(s string) string {
	h := sha256.Sum256([]byte(s))
	return fmt.Sprintf("%x", h[:12])
}

func zeroArr(inner string) string {
	switch inner {
	case "Int":
		return "zarr_Int"
	case "Bytes":
		return "zarr_Bytes"
	}
	return fmt.Sprintf("((as const (Array Int %s)) %s)", inner, zeroOf(inner))
}

// fieldType returns the Go type of the field behind a heap key.
func (p *Prog) fieldType(key string) types.Type {
	for _, n := range p.Structs {
		pref := namedKey(n) + "."
		if strings.HasPrefix(key, pref) {
			st := n.Underlying().(*types.Struct)
			for i := 0; i < st.NumFields(); i++ {
				if st.Field(i).Name() == key[len(pref):] {
					return st.Field(i).Type()
				}
			}
		}
	}
	return nil
}

// heapWF: typed-heap invariant (Go memory safety): references stored in allocated objects are nil or allocated.
func (g *FuncGen) heapWF(key, arr, alloc string) {
	ft := g.P.fieldType(key)
	if ft == nil {
		return
	}
	switch {
	case isRefType(ft):
		g.emit(fmt.Sprintf("(assert (forall ((r Int)) (! (=> (select %s r) (or (= (select %s r) 0) (select %s (select %s r)))) :pattern ((select %s r)))))", alloc, arr, alloc, arr, arr))
	case sortOf(ft) == "(Sq Int)" && isRefType(elemType(ft)):
		g.emit(fmt.Sprintf("(assert (forall ((r Int) (k Int)) (! (=> (and (select %s r) (<= 0 k) (< k (slen (select %s r)))) (or (= (select (selems (select %s r)) k) 0) (select %s (select (selems (select %s r)) k)))) :pattern ((select (selems (select %s r)) k)))))", alloc, arr, arr, alloc, arr, arr))
	}
}

// seqWF: elements of a sequence of references are nil or allocated.
func (g *FuncGen) seqWF(st *State, t string, ty types.Type) {
	if ty == nil || st == nil || g.axiomHeap != nil || g.noFacts > 0 {
		return
	}
	if sortOf(ty) == "(Sq Int)" && isRefType(elemType(ty)) {
		g.assume(st, fmt.Sprintf("(forall ((k Int)) (! (=> (and (<= 0 k) (< k (slen %s))) (or (= (select (selems %s) k) 0) (select %s (select (selems %s) k)))) :pattern ((select (selems %s) k))))", t, t, st.heap["$alloc"], t, t))
	}
}

// pcCases expands a path condition into the alternatives it was merged from (each a conjunction of named
// conditions). Used to discharge an obligation by case analysis when the solver does not split on its own.
func (g *FuncGen) pcCases(pc string, limit int) [][]string {
	if pc == "true" {
		return [][]string{{}}
	}
	if parts, ok := g.orParts[pc]; ok {
		var out [][]string
		for _, p := range parts {
			out = append(out, g.pcCases(p, limit)...)
			if len(out) > limit {
				return [][]string{{pc}}
			}
		}
		return out
	}
	if parent, ok := g.andParent[pc]; ok {
		sub := g.pcCases(parent, limit)
		if len(sub) == 1 && len(sub[0]) <= 1 {
			return [][]string{{pc}}
		}
		var out [][]string
		for _, s := range sub {
			out = append(out, append(append([]string{}, s...), pc))
		}
		return out
	}
	return [][]string{{pc}}
}
