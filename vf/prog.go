package main

import (
	"fmt"
	"go/ast"
	"go/parser"
	"go/token"
	"go/types"
	"os"
	"path/filepath"
	"sort"
	"strings"

	"golang.org/x/tools/go/packages"
)

func loadProg(repo string) (*Prog, error) {
	fset := token.NewFileSet()
	cfg := &packages.Config{
		Mode: packages.NeedName | packages.NeedFiles | packages.NeedCompiledGoFiles | packages.NeedSyntax | packages.NeedTypes |
			packages.NeedTypesInfo | packages.NeedImports | packages.NeedDeps,
		Dir:        repo,
		BuildFlags: []string{"-tags=verif"},
		Fset:       fset,
		Env:        append(os.Environ(), "GOFLAGS=-mod=mod", "GOPROXY=off", "GOSUMDB=off", "GOTOOLCHAIN=local"),
		ParseFile: func(fset *token.FileSet, filename string, src []byte) (*ast.File, error) {
			return parser.ParseFile(fset, filename, src, parser.ParseComments)
		},
	}
	pkgs, err := packages.Load(cfg, "./...")
	if err != nil {
		return nil, err
	}
	p := &Prog{Fset: fset, Pkgs: map[string]*packages.Package{}, Funcs: map[string]*FuncInfo{}, ByObj: map[*types.Func]*FuncInfo{}, Specs: map[string]*PkgSpec{}}
	for _, pk := range pkgs {
		if len(pk.Errors) > 0 {
			return nil, fmt.Errorf("package %s does not type-check: %v", pk.PkgPath, pk.Errors[0])
		}
		short := pkgShort(pk.Types)
		p.Pkgs[short] = pk
	}
	var names []string
	for n := range p.Pkgs {
		names = append(names, n)
	}
	sort.Strings(names)
	for _, short := range names {
		pk := p.Pkgs[short]
		// contracts
		var cfiles []*ast.File
		var cnames []string
		for i, f := range pk.Syntax {
			fn := pk.CompiledGoFiles[i]
			if strings.HasSuffix(fn, "_verif.go") {
				cfiles = append(cfiles, f)
				cnames = append(cnames, strings.TrimPrefix(fn, repo+"/"))
			}
		}
		ps, err := parsePkgSpec(short, cfiles, cnames)
		if err != nil {
			return nil, err
		}
		p.Specs[short] = ps
		// structs
		sc := pk.Types.Scope()
		for _, n := range sc.Names() {
			if tn, ok := sc.Lookup(n).(*types.TypeName); ok {
				if named, ok := tn.Type().(*types.Named); ok {
					if _, ok := named.Underlying().(*types.Struct); ok {
						p.registerStruct(named)
					}
				}
			}
		}
		// functions
		for i, f := range pk.Syntax {
			fn := pk.CompiledGoFiles[i]
			if strings.HasSuffix(fn, "_test.go") {
				continue
			}
			for _, d := range f.Decls {
				switch x := d.(type) {
				case *ast.FuncDecl:
					if x.Body == nil {
						continue
					}
					obj := pk.TypesInfo.Defs[x.Name].(*types.Func)
					shortKey := x.Name.Name
					if x.Recv != nil && len(x.Recv.List) > 0 {
						rt := x.Recv.List[0].Type
						if st, ok := rt.(*ast.StarExpr); ok {
							rt = st.X
						}
						if id, ok := rt.(*ast.Ident); ok {
							shortKey = id.Name + "." + x.Name.Name
						}
					}
					if x.Name.Name == "init" {
						shortKey = "init@" + strings.TrimSuffix(filepath.Base(fn), ".go")
					}
					fi := &FuncInfo{Key: short + "." + shortKey, Short: shortKey, Pkg: pk, Obj: obj, Sig: obj.Type().(*types.Signature), Body: x.Body, Type: x.Type, Decl: x}
					if x.Recv != nil && len(x.Recv.List) > 0 {
						fi.Recv = x.Recv.List[0]
					}
					p.Funcs[fi.Key] = fi
					p.ByObj[obj] = fi
				case *ast.GenDecl:
					// closures in package-level composite literals: var addCmd = &cobra.Command{ RunE: func... }
					if x.Tok != token.VAR {
						continue
					}
					for _, sp := range x.Specs {
						vs := sp.(*ast.ValueSpec)
						for vi, val := range vs.Values {
							if vi >= len(vs.Names) {
								break
							}
							vname := vs.Names[vi].Name
							ast.Inspect(val, func(n ast.Node) bool {
								kv, ok := n.(*ast.KeyValueExpr)
								if !ok {
									return true
								}
								fl, ok := kv.Value.(*ast.FuncLit)
								if !ok {
									return true
								}
								k, ok := kv.Key.(*ast.Ident)
								if !ok {
									return true
								}
								shortKey := vname + "." + k.Name
								sig := pk.TypesInfo.Types[fl].Type.(*types.Signature)
								fi := &FuncInfo{Key: short + "." + shortKey, Short: shortKey, Pkg: pk, Sig: sig, Body: fl.Body, Type: fl.Type, Decl: fl}
								p.Funcs[fi.Key] = fi
								return false
							})
						}
					}
				}
			}
		}
	}
	// bind specs
	for short, ps := range p.Specs {
		for key, fs := range ps.Funcs {
			fi, ok := p.Funcs[short+"."+key]
			if !ok {
				return nil, fmt.Errorf("%s: contract for unknown function %s.%s", fs.File, short, key)
			}
			fi.Spec = fs
		}
	}
	// map types used anywhere in the repository
	seenMap := map[string]bool{}
	for _, pk := range p.Pkgs {
		for _, tv := range pk.TypesInfo.Types {
			if tv.Type == nil {
				continue
			}
			if m, ok := types.Unalias(tv.Type).Underlying().(*types.Map); ok {
				if !seenMap[m.String()] {
					seenMap[m.String()] = true
					p.MapTypes = append(p.MapTypes, m)
				}
			}
		}
	}
	sort.Slice(p.MapTypes, func(i, j int) bool { return p.MapTypes[i].String() < p.MapTypes[j].String() })
	p.computeWrites()
	p.loadRenames()
	return p, nil
}

// computeWrites: per function, the heap fields / globals it may assign and the struct types it may allocate
// (syntactic, transitive over repository callees).
func (p *Prog) computeWrites() {
	for _, fi := range p.Funcs {
		fi.Writes = map[string]bool{}
		fi.Allocs = map[string]bool{}
		fi.callees = map[*FuncInfo]bool{}
		g := &FuncGen{P: p, F: fi, info: fi.Pkg.TypesInfo}
		ws := newWriteSet()
		// direct effects only: callee effects are added by the fixpoint below
		ast.Inspect(fi.Body, func(nd ast.Node) bool {
			switch x := nd.(type) {
			case *ast.AssignStmt:
				for _, l := range x.Lhs {
					g.scanLhs(l, ws)
				}
			case *ast.IncDecStmt:
				g.scanLhs(x.X, ws)
			case *ast.RangeStmt:
				if x.Key != nil {
					g.scanLhs(x.Key, ws)
				}
				if x.Value != nil {
					g.scanLhs(x.Value, ws)
				}
			case *ast.UnaryExpr:
				if x.Op == token.AND {
					if cl, ok := x.X.(*ast.CompositeLit); ok {
						if nn, _, ok := structOf(g.typeOf(cl)); ok && isRepoPkg(nn.Obj().Pkg()) {
							fi.Allocs[namedKey(nn)] = true
						} else {
							fi.Allocs["$opaque"] = true
						}
					} else {
						g.scanLhs(x.X, ws)
					}
				}
			case *ast.CompositeLit:
				if _, ok := types.Unalias(g.typeOf(x)).Underlying().(*types.Map); ok {
					fi.Allocs["$opaque"] = true
					ws.maps = true
				}
			case *ast.CallExpr:
				callee := g.calleeFunc(x)
				if callee != nil {
					if c := p.ByObj[callee]; c != nil {
						fi.callees[c] = true
					} else if callee.FullName() == "sort.Slice" && len(x.Args) > 0 {
						g.scanLhs(x.Args[0], ws)
					}
					for _, k := range libEffectKeys(callee.FullName()) {
						fi.Writes[k] = true
					}
					return true
				}
				if id, ok := unparen(x.Fun).(*ast.Ident); ok {
					if _, isB := g.info.ObjectOf(id).(*types.Builtin); isB {
						switch id.Name {
						case "delete":
							ws.maps = true
						case "make", "new":
							fi.Allocs["$opaque"] = true
							if len(x.Args) > 0 {
								if _, ok := types.Unalias(g.typeOf(x.Args[0])).Underlying().(*types.Map); ok {
									ws.maps = true
								}
								if nn, _, ok := structOf(g.typeOf(x.Args[0])); ok && id.Name == "new" && isRepoPkg(nn.Obj().Pkg()) {
									fi.Allocs[namedKey(nn)] = true
								}
							}
						}
						return true
					}
				}
				if tv, ok := g.info.Types[x.Fun]; ok && tv.IsType() {
					return true
				}
				fi.Writes["$all"] = true
				fi.Writes["$calls"] = true
			}
			return true
		})
		for k := range ws.fields {
			fi.Writes[k] = true
		}
		for o := range ws.vars {
			if v, ok := o.(*types.Var); ok && v.Pkg() != nil && v.Parent() == v.Pkg().Scope() {
				fi.Writes[globalKey(v)] = true
			}
		}
		if ws.maps {
			fi.Writes["$maps"] = true
		}
		if ws.all {
			fi.Writes["$all"] = true
		}
	}
	for changed := true; changed; {
		changed = false
		for _, fi := range p.Funcs {
			for c := range fi.callees {
				for k := range c.Writes {
					if !fi.Writes[k] {
						fi.Writes[k] = true
						changed = true
					}
				}
				for k := range c.Allocs {
					if !fi.Allocs[k] {
						fi.Allocs[k] = true
						changed = true
					}
				}
			}
		}
	}
}

// fieldSort returns the SMT sort of a heap key's elements, from the struct registry.
func (p *Prog) fieldSort(key string) (string, bool) {
	for _, n := range p.Structs {
		pref := namedKey(n) + "."
		if strings.HasPrefix(key, pref) {
			st := n.Underlying().(*types.Struct)
			for i := 0; i < st.NumFields(); i++ {
				if st.Field(i).Name() == key[len(pref):] {
					return sortOf(st.Field(i).Type()), true
				}
			}
		}
	}
	return "", false
}

func (p *Prog) globalVar(key string) *types.Var {
	// "$g.cmd.message"
	parts := strings.SplitN(strings.TrimPrefix(key, "$g."), ".", 2)
	if len(parts) != 2 {
		return nil
	}
	pk, ok := p.Pkgs[parts[0]]
	if !ok {
		return nil
	}
	v, _ := pk.Types.Scope().Lookup(parts[1]).(*types.Var)
	return v
}

// constErrorVar: a package-level variable initialised with errors.New(...) / regexp.MustCompile(...) and never
// assigned by any repository function is a non-nil constant.
func (p *Prog) constErrorVar(o types.Object) bool {
	v, ok := o.(*types.Var)
	if !ok || v.Pkg() == nil || !isRepoPkg(v.Pkg()) {
		return false
	}
	key := globalKey(v)
	for _, fi := range p.Funcs {
		if fi.Writes[key] {
			return false
		}
	}
	pk := p.Pkgs[pkgShort(v.Pkg())]
	if pk == nil {
		return false
	}
	for _, f := range pk.Syntax {
		for _, d := range f.Decls {
			gd, ok := d.(*ast.GenDecl)
			if !ok || gd.Tok != token.VAR {
				continue
			}
			for _, sp := range gd.Specs {
				vs := sp.(*ast.ValueSpec)
				for i, nm := range vs.Names {
					if pk.TypesInfo.Defs[nm] != o || i >= len(vs.Values) {
						continue
					}
					if u, ok := vs.Values[i].(*ast.UnaryExpr); ok && u.Op == token.AND {
						if _, isLit := u.X.(*ast.CompositeLit); isLit {
							return true // var x = &T{...}, never assigned again: a non-nil constant
						}
					}
					call, ok := vs.Values[i].(*ast.CallExpr)
					if !ok {
						return false
					}
					if sel, ok := call.Fun.(*ast.SelectorExpr); ok {
						if fn, ok := pk.TypesInfo.ObjectOf(sel.Sel).(*types.Func); ok {
							switch fn.FullName() {
							case "errors.New", "fmt.Errorf", "regexp.MustCompile":
								return true
							}
						}
					}
				}
			}
		}
	}
	return false
}
