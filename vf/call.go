package main

import (
	"fmt"
	"go/ast"
	"go/token"
	"go/types"
	"os"
	"strings"
)

func (g *FuncGen) evCall(c *ast.CallExpr, st *State) []Val {
	// 1. conversion
	if tv, ok := g.info.Types[c.Fun]; ok && tv.IsType() {
		return []Val{g.evConversion(c, tv.Type, st)}
	}
	// 2. builtin
	if id, ok := unparen(c.Fun).(*ast.Ident); ok {
		if b, isB := g.info.ObjectOf(id).(*types.Builtin); isB {
			return g.evBuiltin(c, b.Name(), st)
		}
	}
	callee := g.calleeFunc(c)
	if callee == nil {
		return g.evFuncValueCall(c, st)
	}
	if fi := g.P.ByObj[callee]; fi != nil {
		return g.evRepoCall(c, fi, st)
	}
	if isRepoPkg(callee.Pkg()) {
		g.fail("repo function %s not in database", callee.FullName())
	}
	return g.evLibCall(c, callee, st)
}

func unparen(e ast.Expr) ast.Expr {
	for {
		p, ok := e.(*ast.ParenExpr)
		if !ok {
			return e
		}
		e = p.X
	}
}

func (g *FuncGen) evConversion(c *ast.CallExpr, to types.Type, st *State) Val {
	v := g.ev(c.Args[0], st)
	ts := sortOf(to)
	src := g.exprText(c)
	switch {
	case ts == v.S && ts == "Int":
		// integer conversion
		if _, isB := to.Underlying().(*types.Basic); isB {
			lo, hi, ok := intRange(to)
			fromLo, fromHi, ok2 := "", "", false
			if v.Ty != nil {
				fromLo, fromHi, ok2 = intRange(v.Ty)
			}
			if ok && !(ok2 && fromLo == lo && fromHi == hi) {
				b := to.Underlying().(*types.Basic)
				switch b.Kind() {
				case types.Uint8:
					g.oblige(st, "conv", src, nil, fmt.Sprintf("(and (<= %s %s) (<= %s %s))", lo, v.T, v.T, hi), c.Pos(), src)
					return Val{fmt.Sprintf("(mod %s 256)", v.T), to, "Int"}
				case types.Uint16:
					g.oblige(st, "conv", src, nil, fmt.Sprintf("(and (<= %s %s) (<= %s %s))", lo, v.T, v.T, hi), c.Pos(), src)
					return Val{fmt.Sprintf("(mod %s 65536)", v.T), to, "Int"}
				case types.Uint32:
					g.oblige(st, "conv", src, nil, fmt.Sprintf("(and (<= %s %s) (<= %s %s))", lo, v.T, v.T, hi), c.Pos(), src)
					return Val{fmt.Sprintf("(mod %s 4294967296)", v.T), to, "Int"}
				}
			}
		}
		return Val{v.T, to, ts}
	case ts == v.S:
		return Val{v.T, to, ts}
	case ts == "Bytes" && v.S == "Int":
		// string(rune) / string(byte)
		return Val{fmt.Sprintf("(byte1 %s)", v.T), to, "Bytes"}
	}
	if isErrorType(to) || ts == "Int" {
		return Val{v.T, to, ts}
	}
	g.fail("unsupported conversion %s (%s -> %s)", src, v.S, ts)
	return Val{}
}

func (g *FuncGen) evBuiltin(c *ast.CallExpr, name string, st *State) []Val {
	intT := types.Typ[types.Int]
	switch name {
	case "len", "cap":
		v := g.ev(c.Args[0], st)
		switch {
		case v.S == "Bytes":
			return []Val{{fmt.Sprintf("(blen %s)", v.T), intT, "Int"}}
		case strings.HasPrefix(v.S, "(Sq "):
			return []Val{{fmt.Sprintf("(slen %s)", v.T), intT, "Int"}}
		}
		if _, ok := types.Unalias(v.Ty).Underlying().(*types.Map); ok {
			r := g.freshVal(st, "maplen", intT)
			g.assume(st, fmt.Sprintf("(<= 0 %s)", r.T))
			return []Val{r}
		}
		g.fail("len of %v", v.Ty)
	case "make":
		ty := g.typeOf(c.Args[0])
		switch u := types.Unalias(ty).Underlying().(type) {
		case *types.Map:
			return []Val{{g.allocMap(st, u), ty, "Int"}}
		case *types.Slice:
			s := sortOf(ty)
			n := Val{"0", intT, "Int"}
			if len(c.Args) > 1 {
				n = g.ev(c.Args[1], st)
			}
			src := g.exprText(c)
			g.oblige(st, "bounds", src, nil, fmt.Sprintf("(<= 0 %s)", n.T), c.Pos(), src)
			// an allocation is bounded: no more than any byte string can hold (A-MEM, 2^47); a length taken from
			// untrusted input without a check against what is actually there fails this
			if _, isConst := g.info.Types[c.Args[len(c.Args)-1]]; len(c.Args) > 1 && !(isConst && g.info.Types[c.Args[1]].Value != nil) {
				g.oblige(st, "alloc", src, nil, fmt.Sprintf("(<= %s 140737488355328)", n.T), c.Pos(), src)
			}
			if s == "Bytes" {
				if n.T == "0" {
					return []Val{{"bempty", ty, s}}
				}
				return []Val{{fmt.Sprintf("(bzeros %s)", n.T), ty, s}}
			}
			inner := s[4 : len(s)-1]
			return []Val{{fmt.Sprintf("(mkseq %s %s)", n.T, zeroArr(inner)), ty, s}}
		}
		g.fail("unsupported make(%v)", ty)
	case "new":
		ty := g.typeOf(c.Args[0])
		if n, s, ok := structOf(ty); ok && isRepoPkg(n.Obj().Pkg()) {
			r := g.alloc(st, n)
			for i := 0; i < s.NumFields(); i++ {
				key := fieldKey(n, s.Field(i).Name())
				fs := sortOf(s.Field(i).Type())
				h := g.heapGet(st, key, fs)
				st.heap[key] = fmt.Sprintf("(store %s %s %s)", h, r, zeroOf(fs))
			}
			return []Val{{r, types.NewPointer(ty), "Int"}}
		}
		return []Val{g.allocOpaque(st, types.NewPointer(ty))}
	case "append":
		return []Val{g.evAppend(c, st)}
	case "delete":
		m := g.ev(c.Args[0], st)
		k := g.ev(c.Args[1], st)
		mt := types.Unalias(m.Ty).Underlying().(*types.Map)
		has, _ := g.mapArrays(st, mt)
		hk := "$map." + sanitize(mt.String()) + ".has"
		st.heap[hk] = fmt.Sprintf("(store %s %s (store (select %s %s) %s false))", has, m.T, has, m.T, k.T)
		return nil
	case "panic":
		g.oblige(st, "panic", "explicit", nil, "false", c.Pos(), g.exprText(c))
		return nil
	}
	g.fail("unsupported builtin %s", name)
	return nil
}

func (g *FuncGen) evAppend(c *ast.CallExpr, st *State) Val {
	base := g.ev(c.Args[0], st)
	ty := g.typeOf(c)
	if base.S == "Bytes" {
		cur := base.T
		if c.Ellipsis.IsValid() {
			o := g.ev(c.Args[1], st)
			return Val{fmt.Sprintf("(bcat %s %s)", cur, o.T), ty, "Bytes"}
		}
		for _, a := range c.Args[1:] {
			v := g.ev(a, st)
			cur = fmt.Sprintf("(bcat %s (byte1 %s))", cur, v.T)
		}
		return Val{cur, ty, "Bytes"}
	}
	if !strings.HasPrefix(base.S, "(Sq ") {
		g.fail("append on %s", base.S)
	}
	if c.Ellipsis.IsValid() {
		// splice idiom: append(s[:p], s[p+1:]...)
		if r, ok := g.trySplice(c, st); ok {
			return r
		}
		o := g.ev(c.Args[1], st)
		return g.seqConcat(st, base, o, ty)
	}
	cur := base.T
	for _, a := range c.Args[1:] {
		v := g.ev(a, st)
		r := g.fresh("app", base.S)
		g.emit(fmt.Sprintf("(assert (= %s (mkseq (+ (slen %s) 1) (store (selems %s) (slen %s) %s))))", r, cur, cur, cur, v.T))
		// pre-image: every old element is still there (triggered by the old sequence's element terms)
		g.emit(fmt.Sprintf("(assert (forall ((k Int)) (! (=> (and (<= 0 k) (< k (slen %s))) (= (select (selems %s) k) (select (selems %s) k))) :pattern ((select (selems %s) k)))))", cur, r, cur, cur))
		cur = r
	}
	return Val{cur, ty, base.S}
}

func (g *FuncGen) seqConcat(st *State, a, b Val, ty types.Type) Val {
	r := g.fresh("cat", a.S)
	g.assume(st, fmt.Sprintf("(= (slen %s) (+ (slen %s) (slen %s)))", r, a.T, b.T))
	g.assume(st, fmt.Sprintf("(forall ((i Int)) (! (=> (and (<= 0 i) (< i (slen %s))) (= (select (selems %s) i) (ite (< i (slen %s)) (select (selems %s) i) (select (selems %s) (- i (slen %s)))))) :pattern ((select (selems %s) i))))",
		r, r, a.T, a.T, b.T, a.T, r))
	g.assume(st, fmt.Sprintf("(forall ((j Int)) (! (=> (and (<= 0 j) (< j (slen %s))) (= (select (selems %s) (+ (slen %s) j)) (select (selems %s) j))) :pattern ((select (selems %s) j))))",
		b.T, r, a.T, b.T, b.T))
	g.assume(st, fmt.Sprintf("(forall ((j Int)) (! (=> (and (<= 0 j) (< j (slen %s))) (= (select (selems %s) j) (select (selems %s) j))) :pattern ((select (selems %s) j))))",
		a.T, r, a.T, a.T))
	return Val{r, ty, a.S}
}

// trySplice recognises append(s[:p], s[q:]...) over the same s and gives it direct two-way axioms.
func (g *FuncGen) trySplice(c *ast.CallExpr, st *State) (Val, bool) {
	s1, ok1 := unparen(c.Args[0]).(*ast.SliceExpr)
	s2, ok2 := unparen(c.Args[1]).(*ast.SliceExpr)
	if !ok1 || !ok2 || s1.Low != nil || s1.High == nil || s2.Low == nil || s2.High != nil {
		return Val{}, false
	}
	if g.exprText(s1.X) != g.exprText(s2.X) {
		return Val{}, false
	}
	base := g.ev(s1.X, st)
	p := g.ev(s1.High, st)
	q := g.ev(s2.Low, st)
	src1, src2 := g.exprText(s1), g.exprText(s2)
	g.oblige(st, "bounds", src1, nil, fmt.Sprintf("(and (<= 0 %s) (<= %s (slen %s)))", p.T, p.T, base.T), s1.Pos(), src1)
	g.oblige(st, "bounds", src2, nil, fmt.Sprintf("(and (<= 0 %s) (<= %s (slen %s)))", q.T, q.T, base.T), s2.Pos(), src2)
	r := g.fresh("splice", base.S)
	n := fmt.Sprintf("(slen %s)", base.T)
	d := fmt.Sprintf("(- %s %s)", q.T, p.T)
	g.assume(st, fmt.Sprintf("(= (slen %s) (- %s %s))", r, n, d))
	// image
	g.assume(st, fmt.Sprintf("(forall ((i Int)) (! (=> (and (<= 0 i) (< i (slen %s))) (= (select (selems %s) i) (ite (< i %s) (select (selems %s) i) (select (selems %s) (+ i %s))))) :pattern ((select (selems %s) i))))",
		r, r, p.T, base.T, base.T, d, r))
	// pre-image
	g.assume(st, fmt.Sprintf("(forall ((j Int)) (! (=> (and (<= 0 j) (< j %s)) (ite (< j %s) (= (select (selems %s) j) (select (selems %s) j)) (=> (<= %s j) (= (select (selems %s) (- j %s)) (select (selems %s) j))))) :pattern ((select (selems %s) j))))",
		n, p.T, r, base.T, q.T, r, d, base.T, base.T))
	return Val{r, g.typeOf(c), base.S}, true
}

// ---------- repo calls ----------

func (g *FuncGen) bindArgs(c *ast.CallExpr, sig *types.Signature, st *State) (recv *Val, args []Val) {
	if sel, ok := unparen(c.Fun).(*ast.SelectorExpr); ok {
		if s, ok := g.info.Selections[sel]; ok && s.Kind() == types.MethodVal {
			rv := g.ev(sel.X, st)
			// implicit field path through embedded structs to the method's receiver
			path := s.Index()
			cur := rv
			for _, idx := range path[:len(path)-1] {
				cur = g.fieldRead(st, cur, idx, sel.Pos(), g.exprText(sel.X))
			}
			// automatic address-of / dereference
			if sig.Recv() != nil {
				_, wantPtr := types.Unalias(sig.Recv().Type()).Underlying().(*types.Pointer)
				_, havePtr := types.Unalias(cur.Ty).Underlying().(*types.Pointer)
				if !wantPtr && havePtr {
					if _, _, isStruct := structOf(cur.Ty); isStruct {
						cur = g.derefStruct(st, cur, sel.Pos())
					}
				}
				if wantPtr && !havePtr {
					// method with pointer receiver on an addressable value: unsupported except library types
					if n, _, ok := structOf(cur.Ty); ok && isRepoPkg(n.Obj().Pkg()) {
						g.fail("pointer-receiver method on struct value %s", g.exprText(sel))
					}
				}
			}
			recv = &cur
		}
	}
	if len(c.Args) == 1 && sig.Params().Len() > 1 {
		args = g.evMulti(c.Args[0], st)
		return
	}
	for i, a := range c.Args {
		if sig.Variadic() && i >= sig.Params().Len()-1 && !c.Ellipsis.IsValid() {
			// pack variadic arguments into a sequence
			vt := sig.Params().At(sig.Params().Len() - 1).Type()
			s := sortOf(vt)
			rest := c.Args[i:]
			if s == "Bytes" {
				g.fail("variadic bytes unsupported")
			}
			inner := "Int"
			if strings.HasPrefix(s, "(Sq ") {
				inner = s[4 : len(s)-1]
			}
			arr := zeroArr(inner)
			for j, r := range rest {
				v := g.ev(r, st)
				if v.S != inner {
					// interface{} variadics (fmt): keep an opaque placeholder
					arr = fmt.Sprintf("(store %s %d %s)", arr, j, zeroOf(inner))
				} else {
					arr = fmt.Sprintf("(store %s %d %s)", arr, j, v.T)
				}
			}
			args = append(args, Val{fmt.Sprintf("(mkseq %d %s)", len(rest), arr), vt, s})
			return
		}
		av := g.ev(a, st)
		if i < sig.Params().Len() {
			av = coerce(av, sig.Params().At(i).Type())
		}
		args = append(args, av)
	}
	if sig.Variadic() && len(c.Args) < sig.Params().Len() {
		vt := sig.Params().At(sig.Params().Len() - 1).Type()
		s := sortOf(vt)
		args = append(args, Val{zeroOf(s), vt, s})
	}
	return
}

func (g *FuncGen) evRepoCall(c *ast.CallExpr, fi *FuncInfo, st *State) []Val {
	recv, args := g.bindArgs(c, fi.Sig, st)
	src := g.exprText(c.Fun)
	if recv != nil {
		if _, isPtr := types.Unalias(recv.Ty).Underlying().(*types.Pointer); isPtr {
			g.oblige(st, "nil", src, nil, fmt.Sprintf("(not (= %s 0))", recv.T), c.Pos(), src)
		}
	}
	if fi.Spec == nil {
		if r, ok := g.tryInline(fi, recv, args, st); ok {
			return r
		}
		if r, ok := g.inlineBody(fi, recv, args, st); ok {
			return r
		}
	}
	return g.applyContract(c.Pos(), fi, recv, args, st)
}

// inlineBody: a small repository function without a contract (typically a helper extracted from a function under
// contract) is executed in place: its statements run on the caller's state with the callee's parameters bound to the
// arguments, its return states are merged. Obligations raised inside are obligations of the caller. Not inlined:
// recursion, bodies of more than inlineMaxStmts statements, nesting deeper than inlineMaxDepth; anything
// the executor cannot lower makes the attempt fall back to the havoc model, leaving no trace.
const inlineMaxStmts = 30
const inlineMaxDepth = 3

func (g *FuncGen) inlineBody(fi *FuncInfo, recv *Val, args []Val, st *State) (res []Val, ok bool) {
	if fi.Body == nil || fi == g.F || len(g.inlineStack) >= inlineMaxDepth || os.Getenv("VF_NOINLINE") != "" {
		return nil, false
	}
	for _, f := range g.inlineStack {
		if f == fi {
			return nil, false
		}
	}
	nst, bad := 0, false
	ast.Inspect(fi.Body, func(n ast.Node) bool {
		switch n.(type) {
		case ast.Stmt:
			nst++
		case *ast.FuncLit:
			// closures are opaque values (sort.Slice reads its closure from the AST): do not count their statements
			return false
		}
		return true
	})
	if bad || nst > inlineMaxStmts || fi.Sig.Variadic() {
		return nil, false
	}
	// snapshot for rollback
	nTrace, nObls, nNotes, nFresh := len(g.trace), len(g.obls), len(g.notes), g.nfresh
	occ := map[string]int{}
	for k, v := range g.occ {
		occ[k] = v
	}
	saveInfo, saveRes, saveRet, saveOrd := g.info, g.resVals, g.returns, g.loopOrd
	work := st.clone()
	work.vars = map[types.Object]Val{}
	g.inlineStack = append(g.inlineStack, fi)
	restore := func() {
		g.info, g.resVals, g.returns, g.loopOrd = saveInfo, saveRes, saveRet, saveOrd
		g.inlineStack = g.inlineStack[:len(g.inlineStack)-1]
	}
	defer func() {
		if r := recover(); r != nil {
			restore()
			if _, isUnbound := r.(unboundErr); !isUnbound {
				panic(r)
			}
			g.trace, g.obls, g.notes, g.nfresh, g.occ = g.trace[:nTrace], g.obls[:nObls], g.notes[:nNotes], nFresh, occ
			res, ok = nil, false
		}
	}()
	g.info = fi.Pkg.TypesInfo
	g.resVals, g.returns = nil, nil
	if recv != nil && fi.Recv != nil && len(fi.Recv.Names) > 0 {
		if o := g.info.Defs[fi.Recv.Names[0]]; o != nil {
			work.vars[o] = *recv
		}
	}
	i := 0
	for _, f := range fi.Type.Params.List {
		for _, nm := range f.Names {
			if o := g.info.Defs[nm]; o != nil && i < len(args) {
				work.vars[o] = Val{coerce(args[i], o.Type()).T, o.Type(), sortOf(o.Type())}
			}
			i++
		}
		if len(f.Names) == 0 {
			i++
		}
	}
	rs := fi.Sig.Results()
	for k := 0; k < rs.Len(); k++ {
		rv := rs.At(k)
		var o types.Object = rv
		if rv.Name() == "" || rv.Name() == "_" {
			o = types.NewVar(token.NoPos, fi.Pkg.Types, fmt.Sprintf("$inl%d_res%d", len(g.inlineStack), k), rv.Type())
		}
		g.resVals = append(g.resVals, o)
		srt := sortOf(rv.Type())
		work.vars[o] = Val{zeroOf(srt), rv.Type(), srt}
	}
	fl := g.execBlock(fi.Body.List, work)
	if fl.next != nil {
		g.returns = append(g.returns, fl.next)
	}
	final := g.merge(g.returns)
	resObjs := g.resVals
	restore()
	g.notes = append(g.notes, fmt.Sprintf("call to %s (no contract) inlined into %s", fi.Key, g.F.Key))
	g.P.noteCall(fi.Key, true)
	if final == nil {
		// the callee never returns (os.Exit / panic on every path)
		g.assume(st, "false")
		for k := 0; k < rs.Len(); k++ {
			res = append(res, g.freshVal(st, "inl", rs.At(k).Type()))
		}
		return res, true
	}
	st.heap, st.pc = final.heap, final.pc
	for _, o := range resObjs {
		res = append(res, final.vars[o])
	}
	return res, true
}

// tryInline: functions whose body is a single return of a simple expression are evaluated in place.
func (g *FuncGen) tryInline(fi *FuncInfo, recv *Val, args []Val, st *State) ([]Val, bool) {
	if fi.Body == nil || len(fi.Body.List) != 1 {
		return nil, false
	}
	ret, ok := fi.Body.List[0].(*ast.ReturnStmt)
	if !ok {
		return nil, false
	}
	simple := true
	ast.Inspect(ret, func(n ast.Node) bool {
		switch x := n.(type) {
		case *ast.CallExpr:
			// allow conversions and builtins only
			if tv, ok := fi.Pkg.TypesInfo.Types[x.Fun]; ok && tv.IsType() {
				return true
			}
			if id, ok := unparen(x.Fun).(*ast.Ident); ok {
				if _, isB := fi.Pkg.TypesInfo.ObjectOf(id).(*types.Builtin); isB {
					return true
				}
			}
			simple = false
		case *ast.FuncLit:
			simple = false
		}
		return true
	})
	if !simple {
		return nil, false
	}
	// evaluate in a scratch variable environment with the callee's type info
	save := g.info
	saveVars := st.vars
	g.info = fi.Pkg.TypesInfo
	st.vars = map[types.Object]Val{}
	defer func() { g.info = save; st.vars = saveVars }()
	if recv != nil && fi.Recv != nil && len(fi.Recv.Names) > 0 {
		if o := g.info.Defs[fi.Recv.Names[0]]; o != nil {
			st.vars[o] = *recv
		}
	}
	i := 0
	for _, f := range fi.Type.Params.List {
		for _, nm := range f.Names {
			if o := g.info.Defs[nm]; o != nil && i < len(args) {
				st.vars[o] = Val{args[i].T, o.Type(), sortOf(o.Type())}
			}
			i++
		}
		if len(f.Names) == 0 {
			i++
		}
	}
	var out []Val
	for _, r := range ret.Results {
		out = append(out, g.ev(r, st))
	}
	return out, true
}

func (g *FuncGen) paramNames(fi *FuncInfo) (recvName string, names []string) {
	if fi.Recv != nil && len(fi.Recv.Names) > 0 {
		recvName = fi.Recv.Names[0].Name
	}
	for _, f := range fi.Type.Params.List {
		if len(f.Names) == 0 {
			names = append(names, "_")
		}
		for _, nm := range f.Names {
			names = append(names, nm.Name)
		}
	}
	return
}

func (g *FuncGen) resultNames(fi *FuncInfo) []string {
	n := fi.Sig.Results().Len()
	out := make([]string, n)
	for i := 0; i < n; i++ {
		out[i] = fmt.Sprintf("result%d", i)
		if v := fi.Sig.Results().At(i); v.Name() != "" {
			out[i] = v.Name()
		}
	}
	if fi.Spec != nil {
		for i, r := range fi.Spec.Returns {
			if i < n && r != "" {
				out[i] = r
			}
		}
	}
	return out
}

// applyContract: assert requires, havoc the frame, assume ensures.
func (g *FuncGen) applyContract(pos token.Pos, fi *FuncInfo, recv *Val, args []Val, st *State) []Val {
	names := map[string]Val{}
	rn, pn := g.paramNames(fi)
	if recv != nil && rn != "" {
		names[rn] = *recv
	}
	for i, n := range pn {
		if i < len(args) && n != "_" {
			names[n] = Val{args[i].T, fi.Sig.Params().At(i).Type(), sortOf(fi.Sig.Params().At(i).Type())}
		}
	}
	// parameters renamed since the lock was taken: the contract may still use the recorded names
	for oldN, newN := range g.P.Renames[fi.Key] {
		if v, ok := names[newN]; ok {
			if _, taken := names[oldN]; !taken {
				names[oldN] = v
			}
		}
	}
	calleeShort := fi.Short
	if fi.Spec != nil {
		for i, rq := range fi.Spec.Requires {
			env := &CEnv{g: g, pkg: fi.Pkg, st: st, old: st, names: names}
			label := rq.Label
			if label == "" {
				label = fmt.Sprintf("%d", i)
			}
			g.oblige(st, "pre@"+calleeShort, label, rq.Tags, env.evalBool(rq.Expr), pos, rq.Src)
		}
		if fi == g.F && fi.Spec.Decr != nil {
			// recursive call: the measure must decrease
			envNew := &CEnv{g: g, pkg: fi.Pkg, st: st, old: st, names: names}
			var newV, oldV []string
			for _, e := range fi.Spec.Decr.Exprs {
				newV = append(newV, envNew.eval(e).T)
			}
			envOld := g.entryEnv()
			for _, e := range fi.Spec.Decr.Exprs {
				oldV = append(oldV, envOld.eval(e).T)
			}
			g.oblige(st, "dec/rec", "", fi.Spec.Decr.Tags, lexLess(newV, oldV), pos, "decreases "+fi.Spec.Decr.Src)
		}
	}
	pre := st.clone()
	// frame
	ws := newWriteSet()
	if fi.Spec != nil && fi.Spec.HasMods {
		for _, m := range fi.Spec.Modifies {
			if m == "*" {
				ws.all = true
			} else if m == "maps" {
				ws.maps = true
			} else {
				ws.fields[g.resolveModKey(fi, m)] = true
			}
		}
	} else if fi.Spec != nil && fi.Spec.Pure {
		// nothing
	} else {
		for k := range fi.Writes {
			if k == "$maps" {
				ws.maps = true
			} else if k == "$all" {
				ws.all = true
			} else {
				ws.fields[k] = true
			}
		}
		if fi.Spec == nil {
			g.notes = append(g.notes, fmt.Sprintf("call to %s has no contract: results unconstrained, written fields havocked", fi.Key))
			g.P.noteCall(fi.Key, false)
		}
	}
	// hidden ghost state the callee may touch is lost to the caller whether or not the contract lists it
	// (it is never checked by a frame obligation)
	if fi.Spec != nil && (fi.Spec.HasMods || fi.Spec.Pure) {
		for k := range fi.Writes {
			if isHiddenGhost(k) {
				ws.fields[k] = true
			}
		}
	}
	if !(fi.Spec != nil && fi.Spec.Pure) {
		for k := range fi.Allocs {
			ws.allocT[k] = true
			ws.alloc = true
		}
	}
	g.havoc(st, ws, "call "+fi.Key)
	// results
	var res []Val
	rnames := g.resultNames(fi)
	for i := 0; i < fi.Sig.Results().Len(); i++ {
		v := g.freshVal(st, "r_"+sanitize(fi.Short), fi.Sig.Results().At(i).Type())
		res = append(res, v)
		names[rnames[i]] = v
	}
	// a callee that may read: its postconditions were proved for runs without a read fault, and are available to the
	// caller in such runs only; the flag is monotone and a read fault is an I/O failure
	guard := ""
	if fi.Writes["$rdfail"] {
		wasRd := g.ghostGet(pre, "$rdfail")
		nowRd := g.ghostGet(st, "$rdfail")
		g.assume(st, fmt.Sprintf("(=> %s %s)", wasRd, nowRd))
		g.assume(st, fmt.Sprintf("(=> (and %s (not %s)) %s)", nowRd, wasRd, g.ghostGet(st, "$iofail")))
		guard = nowRd
	}
	if fi.Spec != nil {
		for _, en := range fi.Spec.Ensures {
			env := &CEnv{g: g, pkg: fi.Pkg, st: st, old: pre, names: names}
			if guard != "" {
				g.assume(st, fmt.Sprintf("(=> (not %s) %s)", guard, env.evalBool(en.Expr)))
			} else {
				g.assume(st, env.evalBool(en.Expr))
			}
		}
	}
	// the callee's own iofail obligation (genfunc.go): failures stay recorded, and a callee that returns an error reports them
	if fi.Writes["$iofail"] {
		was := g.ghostGet(pre, "$iofail")
		now := g.ghostGet(st, "$iofail")
		g.assume(st, fmt.Sprintf("(=> %s %s)", was, now))
		if ioReporting(fi) && len(res) > 0 {
			g.assume(st, fmt.Sprintf("(=> (and %s (not %s)) (not (= %s 0)))", now, was, res[len(res)-1].T))
		}
	}
	return res
}

func (g *FuncGen) resolveModKey(fi *FuncInfo, m string) string {
	// "Index.Entries" -> "store_Index.Entries"; "object.Object.Data" -> "object_Object.Data"; "$g.cmd.message" stays
	if strings.HasPrefix(m, "$") {
		return m
	}
	if m == "fs" {
		return "$fs"
	}
	parts := strings.Split(m, ".")
	switch len(parts) {
	case 2:
		return pkgShort(fi.Pkg.Types) + "_" + parts[0] + "." + parts[1]
	case 3:
		return parts[0] + "_" + parts[1] + "." + parts[2]
	}
	g.fail("bad modifies entry %q", m)
	return ""
}

func (g *FuncGen) entryEnv() *CEnv {
	names := map[string]Val{}
	for o, v := range g.entry.vars {
		names[o.Name()] = v
	}
	return &CEnv{g: g, pkg: g.F.Pkg, st: g.entry, old: g.entry, names: names}
}

// ---------- function values ----------

func (g *FuncGen) evFuncValueCall(c *ast.CallExpr, st *State) []Val {
	ft, ok := types.Unalias(g.typeOf(c.Fun)).Underlying().(*types.Signature)
	if !ok {
		g.fail("call of non-function %s", g.exprText(c.Fun))
	}
	for _, a := range c.Args {
		g.ev(a, st)
	}
	// ghost call counter of the function value
	fv := g.ev(c.Fun, st)
	calls := g.ghostGet(st, "$calls")
	g.ghostSet(st, "$calls", fmt.Sprintf("(store %s %s (+ (select %s %s) 1))", calls, fv.T, calls, fv.T))
	if n, ok := types.Unalias(g.typeOf(c.Fun)).(*types.Named); ok && n.Obj().Pkg() != nil {
		if ps := g.P.Specs[pkgShort(n.Obj().Pkg())]; ps != nil && ps.PureFuncTypes[n.Obj().Name()] {
			g.notes = append(g.notes, fmt.Sprintf("functype %s pure: every function value of this type is assumed not to modify the repository heap or the file system", n.Obj().Name()))
			var res []Val
			for i := 0; i < ft.Results().Len(); i++ {
				res = append(res, g.freshVal(st, "fv", ft.Results().At(i).Type()))
			}
			return res
		}
	}
	ws := newWriteSet()
	ws.all = true
	g.havoc(st, ws, "call through function value")
	g.notes = append(g.notes, fmt.Sprintf("call through function value %s in %s: unknown effects, heap havocked", g.exprText(c.Fun), g.F.Key))
	var res []Val
	for i := 0; i < ft.Results().Len(); i++ {
		res = append(res, g.freshVal(st, "fv", ft.Results().At(i).Type()))
	}
	return res
}
