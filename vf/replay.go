package main

import (
	"bytes"
	"context"
	"encoding/json"
	"fmt"
	"go/ast"
	"go/parser"
	"go/printer"
	"go/token"
	"golang.org/x/tools/go/ast/astutil"
	"os"
	"os/exec"
	"path/filepath"
	"strconv"
	"strings"
	"time"
)

// Replay harnesses: /verif/replay/<pkg>/<function key>.go.txt is an in-package Go test that searches, on the
// REAL function of the current tree, for a small input violating the property-level clause of that function
// (exhaustive up to a stated bound). It is injected with `go test -overlay` (nothing is written to /repo).
// A harness prints "VF-FAIL: <input and observed result>" for the first failing input.

func pkgDirOf(p *Prog, funcKey string) (string, string) {
	short := funcKey[:strings.Index(funcKey, ".")]
	pk, ok := p.Pkgs[short]
	if !ok || len(pk.GoFiles) == 0 {
		return "", short
	}
	return filepath.Dir(pk.GoFiles[0]), short
}

func replaySearch(p *Prog, o *Obligation, id string) map[string]interface{} {
	dir, short := pkgDirOf(p, o.Func)
	if dir == "" {
		return nil
	}
	h := filepath.Join(verifDir, "replay", short+".go.txt")
	testName0 := "TestVFReplay_" + sanitize(strings.TrimPrefix(o.Func, short+"."))
	if b, err := os.ReadFile(h); err != nil || !strings.Contains(string(b), "func "+testName0+"(") {
		return map[string]interface{}{"harness": "none for " + o.Func, "failing_input_found": false}
	}
	tmp, err := os.MkdirTemp("/var/tmp", "vfreplay.")
	if err != nil {
		return nil
	}
	defer os.RemoveAll(tmp)
	if pruned, err := pruneHarness(h, testName0); err == nil {
		ph := filepath.Join(tmp, "harness_test.go")
		if os.WriteFile(ph, pruned, 0o644) == nil {
			h = ph
		}
	}
	ov := map[string]map[string]string{"Replace": {filepath.Join(dir, "zz_vfreplay_test.go"): h}}
	b, _ := json.Marshal(ov)
	ovPath := filepath.Join(tmp, "ov.json")
	os.WriteFile(ovPath, b, 0o644)
	testName := "TestVFReplay_" + sanitize(strings.TrimPrefix(o.Func, short+"."))
	ctx, cancel := context.WithTimeout(context.Background(), 120*time.Second)
	defer cancel()
	cmd := exec.CommandContext(ctx, "go", "test", "-overlay", ovPath, "-vet=off", "-count=1", "-timeout", "90s", "-run", "^"+testName+"$", ".")
	cmd.Dir = dir
	cmd.Env = append(os.Environ(), "GOFLAGS=-mod=mod", "GOPROXY=off", "GOSUMDB=off", "GOTOOLCHAIN=local", "VF_OBLIGATION="+o.Name)
	restore := keepModFiles()
	out, _ := cmd.CombinedOutput()
	restore()
	res := map[string]interface{}{"harness": h, "command": strings.Join(cmd.Args, " ") + "   (cwd " + dir + ")", "failing_input_found": false}
	var fails []string
	for _, l := range strings.Split(string(out), "\n") {
		if i := strings.Index(l, "VF-FAIL:"); i >= 0 {
			fails = append(fails, strings.TrimSpace(l[i+8:]))
		}
	}
	if len(fails) > 0 {
		res["failing_input_found"] = true
		if len(fails) > 5 {
			fails = fails[:5]
		}
		res["failing_inputs"] = fails
	}
	o2 := string(out)
	if len(o2) > 4000 {
		o2 = o2[:4000]
	}
	res["output"] = o2
	_ = fmt.Sprint
	return res
}

// ---------- bounded stand-ins ----------

// standinTier: quick or thorough; the harnesses enumerate one size further in the thorough tier
var standinTier = "quick"

type standin struct {
	Prop, Pkg, Test, Tier, Bound string
}

func loadStandins() []standin {
	var out []standin
	for _, l := range readLines(filepath.Join(verifDir, "replay", "standins.tsv")) {
		f := strings.Split(l, "\t")
		if len(f) >= 5 {
			out = append(out, standin{f[0], f[1], f[2], f[3], f[4]})
		}
	}
	return out
}

// runStandin runs one harness test on the real functions of the current tree (overlay injection).
func runStandin(p *Prog, sd standin) map[string]interface{} {
	pk, ok := p.Pkgs[sd.Pkg]
	res := map[string]interface{}{"test": sd.Test, "package": sd.Pkg, "bound": sd.Bound, "kind": "bounded stand-in (not a proof)"}
	if !ok || len(pk.GoFiles) == 0 {
		res["passed"] = false
		res["error"] = "package not found"
		return res
	}
	dir := filepath.Dir(pk.GoFiles[0])
	h := filepath.Join(verifDir, "replay", sd.Pkg+".go.txt")
	tmp, err := os.MkdirTemp("/var/tmp", "vfstand.")
	if err != nil {
		res["passed"] = false
		return res
	}
	defer os.RemoveAll(tmp)
	// only the requested test and the helpers are compiled: a changed signature of some other function under test
	// must not take this stand-in down with it
	if pruned, err := pruneHarness(h, sd.Test); err == nil && os.Getenv("VF_NOPRUNE") == "" {
		ph := filepath.Join(tmp, "harness_test.go")
		if os.WriteFile(ph, pruned, 0o644) == nil {
			h = ph
		}
	}
	ov := map[string]map[string]string{"Replace": {filepath.Join(dir, "zz_vfreplay_test.go"): h}}
	b, _ := json.Marshal(ov)
	ovPath := filepath.Join(tmp, "ov.json")
	os.WriteFile(ovPath, b, 0o644)
	limit := 300
	if standinTier == "thorough" {
		limit = 1500
	}
	ctx, cancel := context.WithTimeout(context.Background(), time.Duration(limit)*time.Second)
	defer cancel()
	t0 := time.Now()
	cmd := exec.CommandContext(ctx, "go", "test", "-v", "-overlay", ovPath, "-vet=off", "-count=1", "-timeout", fmt.Sprintf("%ds", limit-20), "-run", "^"+sd.Test+"$", ".")
	cmd.Dir = dir
	cmd.Env = append(os.Environ(), "GOFLAGS=-mod=mod", "GOPROXY=off", "GOSUMDB=off", "GOTOOLCHAIN=local", "VF_TIER="+standinTier)
	// go test under -mod=mod may rewrite go.mod / go.sum of the module under test (an import the harness adds can turn an
	// indirect requirement into a direct one): a check never leaves the tree it checks changed
	modFiles := map[string][]byte{}
	for _, name := range []string{"go.mod", "go.sum"} {
		if b, err := os.ReadFile(filepath.Join(repoDir(), name)); err == nil {
			modFiles[name] = b
		}
	}
	out, runErr := cmd.CombinedOutput()
	for name, before := range modFiles {
		if after, err := os.ReadFile(filepath.Join(repoDir(), name)); err == nil && string(after) != string(before) {
			os.WriteFile(filepath.Join(repoDir(), name), before, 0o644)
			res["restored"] = name + " was rewritten by go test and has been put back"
		}
	}
	res["seconds"] = time.Since(t0).Seconds()
	res["command"] = strings.Join(cmd.Args, " ") + "   (cwd " + dir + ")"
	var fails []string
	cases := 0
	for _, l := range strings.Split(string(out), "\n") {
		if i := strings.Index(l, "VF-FAIL:"); i >= 0 && len(fails) < 5 {
			fails = append(fails, strings.TrimSpace(l[i+8:]))
		}
		if i := strings.Index(l, "VF-CASES:"); i >= 0 {
			fmt.Sscanf(strings.TrimSpace(l[i+9:]), "%d", &cases)
		}
	}
	res["cases"] = cases
	if strings.Contains(string(out), "[build failed]") && h != filepath.Join(verifDir, "replay", sd.Pkg+".go.txt") && os.Getenv("VF_NOPRUNE") == "" {
		// the pruned harness does not build: is it the pruning? try the whole file once
		os.Setenv("VF_NOPRUNE", "1")
		r2 := runStandin(p, sd)
		os.Unsetenv("VF_NOPRUNE")
		if u, _ := r2["unavailable"].(bool); !u {
			r2["note"] = "the pruned harness did not build, the whole harness file did"
			return r2
		}
	}
	if strings.Contains(string(out), "[build failed]") {
		// the harness calls a function whose signature the current code no longer has: nothing was run, nothing is known
		res["unavailable"] = true
		res["passed"] = true
		o := string(out)
		if len(o) > 1500 {
			o = o[:1500]
		}
		res["output"] = o
		fmt.Printf("note: bounded stand-in %s does not compile against the current code and was not run (it decides nothing on this tree)\n", sd.Test)
		return res
	}
	res["passed"] = runErr == nil && len(fails) == 0 && strings.Contains(string(out), "ok") && cases > 0
	if cases == 0 && runErr == nil {
		res["error"] = "vacuous: the harness reported no case (VF-CASES line missing or 0)"
	}
	if len(fails) > 0 {
		res["failing_inputs"] = fails
	}
	if runErr != nil && len(fails) == 0 {
		o := string(out)
		if len(o) > 2000 {
			o = o[len(o)-2000:]
		}
		res["output"] = o
	}
	return res
}

// pruneHarness keeps the helper declarations of a harness file and, of its Test functions, only the requested one and
// the Test functions it (transitively) calls; imports that are no longer used are dropped.
func pruneHarness(path, test string) ([]byte, error) {
	fset := token.NewFileSet()
	f, err := parser.ParseFile(fset, path, nil, parser.ParseComments)
	if err != nil {
		return nil, err
	}
	tests := map[string]*ast.FuncDecl{}
	for _, d := range f.Decls {
		if fd, ok := d.(*ast.FuncDecl); ok && fd.Recv == nil && strings.HasPrefix(fd.Name.Name, "Test") {
			tests[fd.Name.Name] = fd
		}
	}
	need := map[string]bool{}
	var visit func(n string)
	visit = func(n string) {
		fd, ok := tests[n]
		if !ok || need[n] {
			return
		}
		need[n] = true
		ast.Inspect(fd.Body, func(x ast.Node) bool {
			if id, ok := x.(*ast.Ident); ok {
				visit(id.Name)
			}
			return true
		})
	}
	visit(test)
	if !need[test] {
		return nil, fmt.Errorf("no test %s", test)
	}
	var decls []ast.Decl
	for _, d := range f.Decls {
		if fd, ok := d.(*ast.FuncDecl); ok && fd.Recv == nil && strings.HasPrefix(fd.Name.Name, "Test") && !need[fd.Name.Name] {
			continue
		}
		decls = append(decls, d)
	}
	f.Decls = decls
	// comments of removed functions would be printed at odd places: keep only comments inside kept declarations
	var cg []*ast.CommentGroup
	for _, c := range f.Comments {
		for _, d := range f.Decls {
			if c.Pos() >= d.Pos() && c.End() <= d.End() {
				cg = append(cg, c)
				break
			}
		}
	}
	f.Comments = cg
	for _, imp := range append([]*ast.ImportSpec{}, f.Imports...) {
		p, _ := strconv.Unquote(imp.Path.Value)
		if !astutil.UsesImport(f, p) {
			if imp.Name != nil {
				astutil.DeleteNamedImport(fset, f, imp.Name.Name, p)
			} else {
				astutil.DeleteImport(fset, f, p)
			}
		}
	}
	var buf bytes.Buffer
	if err := printer.Fprint(&buf, fset, f); err != nil {
		return nil, err
	}
	return buf.Bytes(), nil
}

// keepModFiles remembers go.mod and go.sum of the tree under check and returns a function that puts them back if a go
// command has rewritten them.
func keepModFiles() func() {
	saved := map[string][]byte{}
	for _, name := range []string{"go.mod", "go.sum"} {
		if b, err := os.ReadFile(filepath.Join(repoDir(), name)); err == nil {
			saved[name] = b
		}
	}
	return func() {
		for name, before := range saved {
			if after, err := os.ReadFile(filepath.Join(repoDir(), name)); err == nil && string(after) != string(before) {
				os.WriteFile(filepath.Join(repoDir(), name), before, 0o644)
			}
		}
	}
}
