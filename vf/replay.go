package main

import (
	"context"
	"encoding/json"
	"fmt"
	"os"
	"os/exec"
	"path/filepath"
	"strings"
	"time"
)

// Replay harnesses: /verif/replay/<pkg>/<function key>.go.txt is an in-package Go test that searches, on the
// REAL function of the current tree, for a small input violating the property-level clause of that function
// (exhaustive up to a stated bound). It is injected with `go test -overlay` (nothing is written to /repo).
// A harness prints "VF-FAIL: <input and observed result>" for the first failing input.

func pkgDirOf(p *Prog, funcKey string) (string, string) {
	short := funcKey[:strings.Index(funcKey, ".")]
	pk, ok := p.Pkgs[short]
	if !ok || len(pk.GoFiles) == 0 {
		return "", short
	}
	return filepath.Dir(pk.GoFiles[0]), short
}

func replaySearch(p *Prog, o *Obligation, id string) map[string]interface{} {
	dir, short := pkgDirOf(p, o.Func)
	if dir == "" {
		return nil
	}
	h := filepath.Join(verifDir, "replay", short+".go.txt")
	testName0 := "TestVFReplay_" + sanitize(strings.TrimPrefix(o.Func, short+"."))
	if b, err := os.ReadFile(h); err != nil || !strings.Contains(string(b), "func "+testName0+"(") {
		return map[string]interface{}{"harness": "none for " + o.Func, "failing_input_found": false}
	}
	tmp, err := os.MkdirTemp("/var/tmp", "vfreplay.")
	if err != nil {
		return nil
	}
	defer os.RemoveAll(tmp)
	ov := map[string]map[string]string{"Replace": {filepath.Join(dir, "zz_vfreplay_test.go"): h}}
	b, _ := json.Marshal(ov)
	ovPath := filepath.Join(tmp, "ov.json")
	os.WriteFile(ovPath, b, 0o644)
	testName := "TestVFReplay_" + sanitize(strings.TrimPrefix(o.Func, short+"."))
	ctx, cancel := context.WithTimeout(context.Background(), 120*time.Second)
	defer cancel()
	cmd := exec.CommandContext(ctx, "go", "test", "-overlay", ovPath, "-vet=off", "-count=1", "-timeout", "90s", "-run", "^"+testName+"$", ".")
	cmd.Dir = dir
	cmd.Env = append(os.Environ(), "GOFLAGS=-mod=mod", "GOPROXY=off", "GOSUMDB=off", "GOTOOLCHAIN=local", "VF_OBLIGATION="+o.Name)
	out, _ := cmd.CombinedOutput()
	res := map[string]interface{}{"harness": h, "command": strings.Join(cmd.Args, " ") + "   (cwd " + dir + ")", "failing_input_found": false}
	var fails []string
	for _, l := range strings.Split(string(out), "\n") {
		if i := strings.Index(l, "VF-FAIL:"); i >= 0 {
			fails = append(fails, strings.TrimSpace(l[i+8:]))
		}
	}
	if len(fails) > 0 {
		res["failing_input_found"] = true
		if len(fails) > 5 {
			fails = fails[:5]
		}
		res["failing_inputs"] = fails
	}
	o2 := string(out)
	if len(o2) > 4000 {
		o2 = o2[:4000]
	}
	res["output"] = o2
	_ = fmt.Sprint
	return res
}

// ---------- bounded stand-ins ----------

type standin struct {
	Prop, Pkg, Test, Tier, Bound string
}

func loadStandins() []standin {
	var out []standin
	for _, l := range readLines(filepath.Join(verifDir, "replay", "standins.tsv")) {
		f := strings.Split(l, "\t")
		if len(f) >= 5 {
			out = append(out, standin{f[0], f[1], f[2], f[3], f[4]})
		}
	}
	return out
}

// runStandin runs one harness test on the real functions of the current tree (overlay injection).
func runStandin(p *Prog, sd standin) map[string]interface{} {
	pk, ok := p.Pkgs[sd.Pkg]
	res := map[string]interface{}{"test": sd.Test, "package": sd.Pkg, "bound": sd.Bound, "kind": "bounded stand-in (not a proof)"}
	if !ok || len(pk.GoFiles) == 0 {
		res["passed"] = false
		res["error"] = "package not found"
		return res
	}
	dir := filepath.Dir(pk.GoFiles[0])
	h := filepath.Join(verifDir, "replay", sd.Pkg+".go.txt")
	tmp, err := os.MkdirTemp("/var/tmp", "vfstand.")
	if err != nil {
		res["passed"] = false
		return res
	}
	defer os.RemoveAll(tmp)
	ov := map[string]map[string]string{"Replace": {filepath.Join(dir, "zz_vfreplay_test.go"): h}}
	b, _ := json.Marshal(ov)
	ovPath := filepath.Join(tmp, "ov.json")
	os.WriteFile(ovPath, b, 0o644)
	ctx, cancel := context.WithTimeout(context.Background(), 300*time.Second)
	defer cancel()
	t0 := time.Now()
	cmd := exec.CommandContext(ctx, "go", "test", "-v", "-overlay", ovPath, "-vet=off", "-count=1", "-timeout", "280s", "-run", "^"+sd.Test+"$", ".")
	cmd.Dir = dir
	cmd.Env = append(os.Environ(), "GOFLAGS=-mod=mod", "GOPROXY=off", "GOSUMDB=off", "GOTOOLCHAIN=local")
	out, runErr := cmd.CombinedOutput()
	res["seconds"] = time.Since(t0).Seconds()
	res["command"] = strings.Join(cmd.Args, " ") + "   (cwd " + dir + ")"
	var fails []string
	cases := 0
	for _, l := range strings.Split(string(out), "\n") {
		if i := strings.Index(l, "VF-FAIL:"); i >= 0 && len(fails) < 5 {
			fails = append(fails, strings.TrimSpace(l[i+8:]))
		}
		if i := strings.Index(l, "VF-CASES:"); i >= 0 {
			fmt.Sscanf(strings.TrimSpace(l[i+9:]), "%d", &cases)
		}
	}
	res["cases"] = cases
	res["passed"] = runErr == nil && len(fails) == 0 && strings.Contains(string(out), "ok") && cases > 0
	if cases == 0 && runErr == nil {
		res["error"] = "vacuous: the harness reported no case (VF-CASES line missing or 0)"
	}
	if len(fails) > 0 {
		res["failing_inputs"] = fails
	}
	if runErr != nil && len(fails) == 0 {
		o := string(out)
		if len(o) > 2000 {
			o = o[len(o)-2000:]
		}
		res["output"] = o
	}
	return res
}
