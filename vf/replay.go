package main

import (
	"context"
	"encoding/json"
	"fmt"
	"os"
	"os/exec"
	"path/filepath"
	"strings"
	"time"
)

// Replay harnesses: /verif/replay/<pkg>/<function key>.go.txt is an in-package Go test that searches, on the
// REAL function of the current tree, for a small input violating the property-level clause of that function
// (exhaustive up to a stated bound). It is injected with `go test -overlay` (nothing is written to /repo).
// A harness prints "VF-FAIL: <input and observed result>" for the first failing input.

func pkgDirOf(p *Prog, funcKey string) (string, string) {
	short := funcKey[:strings.Index(funcKey, ".")]
	pk, ok := p.Pkgs[short]
	if !ok || len(pk.GoFiles) == 0 {
		return "", short
	}
	return filepath.Dir(pk.GoFiles[0]), short
}

func replaySearch(p *Prog, o *Obligation, id string) map[string]interface{} {
	dir, short := pkgDirOf(p, o.Func)
	if dir == "" {
		return nil
	}
	h := filepath.Join(verifDir, "replay", short+".go.txt")
	testName0 := "TestVFReplay_" + sanitize(strings.TrimPrefix(o.Func, short+"."))
	if b, err := os.ReadFile(h); err != nil || !strings.Contains(string(b), "func "+testName0+"(") {
		return map[string]interface{}{"harness": "none for " + o.Func, "failing_input_found": false}
	}
	tmp, err := os.MkdirTemp("/var/tmp", "vfreplay.")
	if err != nil {
		return nil
	}
	defer os.RemoveAll(tmp)
	ov := map[string]map[string]string{"Replace": {filepath.Join(dir, "zz_vfreplay_test.go"): h}}
	b, _ := json.Marshal(ov)
	ovPath := filepath.Join(tmp, "ov.json")
	os.WriteFile(ovPath, b, 0o644)
	testName := "TestVFReplay_" + sanitize(strings.TrimPrefix(o.Func, short+"."))
	ctx, cancel := context.WithTimeout(context.Background(), 120*time.Second)
	defer cancel()
	cmd := exec.CommandContext(ctx, "go", "test", "-overlay", ovPath, "-vet=off", "-count=1", "-timeout", "90s", "-run", "^"+testName+"$", ".")
	cmd.Dir = dir
	cmd.Env = append(os.Environ(), "GOFLAGS=-mod=mod", "GOPROXY=off", "GOSUMDB=off", "GOTOOLCHAIN=local", "VF_OBLIGATION="+o.Name)
	out, _ := cmd.CombinedOutput()
	res := map[string]interface{}{"harness": h, "command": strings.Join(cmd.Args, " ") + "   (cwd " + dir + ")", "failing_input_found": false}
	var fails []string
	for _, l := range strings.Split(string(out), "\n") {
		if i := strings.Index(l, "VF-FAIL:"); i >= 0 {
			fails = append(fails, strings.TrimSpace(l[i+8:]))
		}
	}
	if len(fails) > 0 {
		res["failing_input_found"] = true
		if len(fails) > 5 {
			fails = fails[:5]
		}
		res["failing_inputs"] = fails
	}
	o2 := string(out)
	if len(o2) > 4000 {
		o2 = o2[:4000]
	}
	res["output"] = o2
	_ = fmt.Sprint
	return res
}
