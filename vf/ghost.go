package main

import (
	"fmt"
	"strings"
)

// Ghost state kept next to the heap: the file system and the hidden state of library objects
// (reader positions, hash accumulators, line scanners). Keys map to their full SMT sort.
var ghostKeys = map[string]string{
	"$fs":       "FS",                // file system: path -> FNode
	"$rdpos":    "(Array Int Int)",   // reader handle -> read position
	"$hashdata": "(Array Int Bytes)", // hash.Hash handle -> bytes written so far
	"$screst":   "(Array Int Bytes)", // bufio.Scanner handle -> unread remainder
	"$sctok":    "(Array Int Bytes)", // bufio.Scanner handle -> current token
	"$out":      "(Sq Bytes)",        // lines printed to stdout (fmt.Print*, color.*)
	"$calls":    "(Array Int Int)",   // function value -> number of calls made through it
	"$zw":       "(Array Int Bytes)", // zlib.Writer handle -> bytes written so far
	"$sb":       "(Array Int Bytes)", // strings.Builder handle -> text built so far
	"$rdfail":   "Bool",              // some read (os.ReadFile, os.Open, os.ReadDir) of a path that is there has failed
	"$iofail":   "Bool",              // some file-system modification (create, write, mkdir, remove, rename) has failed
}

// hidden state of library objects, console output and call counters: never part of a frame obligation; a caller
// loses what it knew about them whenever the callee may (syntactically, transitively) touch them
func isHiddenGhost(k string) bool {
	return k == "$out" || k == "$rdpos" || k == "$hashdata" || k == "$screst" || k == "$sctok" || k == "$calls" || k == "$iofail" || k == "$rdfail" || k == "$zw" || k == "$sb"
}

func isGhostKey(k string) bool { _, ok := ghostKeys[k]; return ok }

func (g *FuncGen) ghostGet(st *State, key string) string {
	if g.axiomHeap != nil {
		g.axiomHeap[key] = ghostKeys[key]
		return "QH_" + sanitize(key)
	}
	if t, ok := st.heap[key]; ok {
		return t
	}
	n := heapName(key) + "_0"
	if _, ok := g.heapKeys[key]; !ok {
		g.heapKeys[key] = ghostKeys[key]
		g.emit(fmt.Sprintf("(declare-const %s %s)", n, ghostKeys[key]))
		if key == "$out" {
			g.emit(fmt.Sprintf("(assert (<= 0 (slen %s)))", n))
		}
	}
	if g.entry != nil {
		if _, ok := g.entry.heap[key]; !ok {
			g.entry.heap[key] = n
		}
	}
	st.heap[key] = n
	return n
}

func (g *FuncGen) ghostSet(st *State, key, term string) {
	g.ghostGet(st, key)
	st.heap[key] = term
}

// effects of library functions on ghost state (for loop and call frames)
var libEffects = map[string][]string{
	"os.ReadFile":                   {"$iofail", "$rdfail"},
	"os.Open":                       {"$iofail", "$rdfail"},
	"os.ReadDir":                    {"$iofail", "$rdfail"},
	"os.Create":                     {"$fs", "$iofail"},
	"os.OpenFile":                   {"$fs", "$iofail"},
	"os.Mkdir":                      {"$fs", "$iofail"},
	"os.MkdirAll":                   {"$fs", "$iofail"},
	"os.Remove":                     {"$fs", "$iofail"},
	"os.Rename":                     {"$fs", "$iofail"},
	"os.WriteFile":                  {"$fs", "$iofail"},
	"(*os.File).Write":              {"$fs", "$iofail"},
	"(*os.File).WriteString":        {"$fs", "$iofail"},
	"encoding/binary.Write":         {"$fs", "$iofail"},
	"io.WriteString":                {"$hashdata"},
	"(io.Reader).Read":              {"$rdpos", "$hashdata"},
	"(*bytes.Reader).Read":          {"$rdpos", "$hashdata"},
	"io.ReadAll":                    {"$rdpos", "$hashdata"},
	"encoding/binary.Read":          {"$rdpos", "$hashdata"},
	"(*bufio.Scanner).Scan":         {"$screst", "$sctok"},
	"compress/zlib.NewWriter":       {"$zw"},
	"(*compress/zlib.Writer).Write": {"$zw"},
	"(*strings.Builder).WriteString": {"$sb"},
	"(*strings.Builder).WriteByte":   {"$sb"},
	"(*strings.Builder).Write":       {"$sb"},
	"(*strings.Builder).Reset":       {"$sb"},
	"fmt.Fprintf":                    {"$sb"},
	"fmt.Println":                   {"$out"},
	"fmt.Printf":                    {"$out"},
	"fmt.Print":                     {"$out"},
	"github.com/fatih/color.Green":  {"$out"},
}

func libEffectKeys(fullName string) []string {
	if e, ok := libEffects[fullName]; ok {
		return e
	}
	if strings.HasSuffix(fullName, ".Write") && strings.Contains(fullName, "hash") {
		return []string{"$hashdata"}
	}
	return nil
}

// rdFailed records that a read of a path that is there returned an error (a fault: EIO, EACCES, EMFILE ...). Both flags
// are raised: $iofail feeds the reporting obligations (C16), $rdfail marks the run as one in which a read fault happened;
// every obligation other than the reporting ones is about runs without such a fault.
func (g *FuncGen) rdFailed(st *State, cond string) {
	cur := g.ghostGet(st, "$iofail")
	g.ghostSet(st, "$iofail", fmt.Sprintf("(or %s %s)", cur, cond))
	rd := g.ghostGet(st, "$rdfail")
	g.ghostSet(st, "$rdfail", fmt.Sprintf("(or %s %s)", rd, cond))
}

// ioFailed records that a file-system modification returned an error: err is the error term of the primitive.
func (g *FuncGen) ioFailed(st *State, errT string) {
	cur := g.ghostGet(st, "$iofail")
	g.ghostSet(st, "$iofail", fmt.Sprintf("(or %s (not (= %s 0)))", cur, errT))
}
