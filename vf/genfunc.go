package main

import (
	"fmt"
	"go/ast"
	"go/token"
	"go/types"
	"sort"
	"strings"
)

// genFunc generates all obligations of one function from its current source.
func (p *Prog) genFunc(fi *FuncInfo) (g *FuncGen) {
	g = &FuncGen{P: p, F: fi, occ: map[string]int{}, factSeen: map[string]bool{}, lits: map[string]string{},
		heapKeys: map[string]string{}, declSeen: map[string]bool{}, info: fi.Pkg.TypesInfo}
	defer func() {
		if r := recover(); r != nil {
			if ue, ok := r.(unboundErr); ok {
				g.unbound = ue.msg
				return
			}
			panic(r)
		}
	}()
	st := &State{vars: map[types.Object]Val{}, heap: map[string]string{}, pc: "true"}
	g.emit("(declare-const alloc_0 (Array Int Bool))")
	g.emit("(assert (not (select alloc_0 0)))")
	st.heap["$alloc"] = "alloc_0"
	g.entry = st // heapGet records lazily declared arrays here as well
	// receiver and parameters
	paramVals := map[string]Val{}
	if fi.Recv != nil {
		for _, nm := range fi.Recv.Names {
			o := g.info.Defs[nm]
			if o == nil {
				continue
			}
			v := g.freshVal(st, nm.Name, o.Type())
			if isRefType(o.Type()) {
				// methods are verified for non-nil receivers; call sites carry the nil obligation
				g.assume(st, fmt.Sprintf("(and (not (= %s 0)) (select alloc_0 %s))", v.T, v.T))
			}
			st.vars[o] = v
			paramVals[nm.Name] = v
		}
	}
	for _, f := range fi.Type.Params.List {
		for _, nm := range f.Names {
			o := g.info.Defs[nm]
			if o == nil {
				continue
			}
			v := g.freshVal(st, nm.Name, o.Type())
			st.vars[o] = v
			paramVals[nm.Name] = v
		}
	}
	// results
	res := fi.Sig.Results()
	for i := 0; i < res.Len(); i++ {
		rv := res.At(i)
		var o types.Object = rv
		if rv.Name() == "" || rv.Name() == "_" {
			o = types.NewVar(token.NoPos, fi.Pkg.Types, fmt.Sprintf("$res%d", i), rv.Type())
		}
		g.resVals = append(g.resVals, o)
		s := sortOf(rv.Type())
		st.vars[o] = Val{zeroOf(s), rv.Type(), s}
	}
	for oldN, newN := range g.P.Renames[fi.Key] {
		if v, ok := paramVals[newN]; ok {
			if _, taken := paramVals[oldN]; !taken {
				paramVals[oldN] = v
			}
		}
	}
	if fi.Writes["$iofail"] {
		g.ghostGet(st, "$iofail")
	}
	if fi.Writes["$rdfail"] {
		// a read fault is an I/O failure (invariant of the two flags)
		g.assume(st, fmt.Sprintf("(=> %s %s)", g.ghostGet(st, "$rdfail"), g.ghostGet(st, "$iofail")))
	}
	g.entry = st.clone()
	// requires
	if fi.Spec != nil {
		for _, rq := range fi.Spec.Requires {
			env := &CEnv{g: g, pkg: fi.Pkg, st: st, old: g.entry, names: paramVals}
			g.assume(st, env.evalBool(rq.Expr))
		}
		// reachability cover: the preconditions must be satisfiable
		if len(fi.Spec.Requires) > 0 {
			g.obls = append(g.obls, &Obligation{Name: fi.Key + "#cover[requires]", Func: fi.Key, Kind: "cover", traceLen: len(g.trace), pc: "true", goal: "false", Src: "preconditions are satisfiable"})
		}
	}
	// keep entry heap in sync with arrays declared while evaluating requires
	for k, h := range st.heap {
		if _, ok := g.entry.heap[k]; !ok {
			g.entry.heap[k] = h
		}
	}
	if fi.Spec != nil && fi.Spec.Trusted {
		g.notes = append(g.notes, "TRUSTED contract (body not verified): "+fi.Key)
		return g
	}
	fl := g.execBlock(fi.Body.List, st)
	if fl.next != nil {
		g.returns = append(g.returns, fl.next)
	}
	final := g.merge(g.returns)
	if final == nil {
		return g
	}
	// C16: a function that returns an error reports the failure of any file-system modification made during the call
	if ioReporting(fi) {
		cur := g.ghostGet(final, "$iofail")
		errV := final.vars[g.resVals[len(g.resVals)-1]]
		g.oblige(final, "iofail", "", nil, fmt.Sprintf("(=> (and %s (not %s)) (not (= %s 0)))", cur, g.entry.heap["$iofail"], errV.T), fi.Body.Rbrace,
			"a failed file-system modification is reported: the function returns a non-nil error")
	}
	// a proof step whose call the body no longer makes is an open obligation, not a silently dropped one
	if fi.Spec != nil {
		for _, a := range fi.Spec.Asserts {
			if g.afterCount[a.Callee] <= a.Ord {
				g.oblige(final, "assert", a.Clause.Label+"[no-such-call]", a.Clause.Tags, "false", fi.Body.Rbrace, fmt.Sprintf("after %s#%d: the body makes no such call", a.Callee, a.Ord))
			}
		}
	}
	// ensures
	if fi.Spec != nil {
		names := map[string]Val{}
		for k, v := range paramVals {
			names[k] = v
		}
		rnames := g.resultNames(fi)
		for i, o := range g.resVals {
			names[rnames[i]] = final.vars[o]
		}
		endPos := fi.Body.Rbrace
		g.noAssume = true
		for i, en := range fi.Spec.Ensures {
			env := &CEnv{g: g, pkg: fi.Pkg, st: final, old: g.entry, names: names}
			label := en.Label
			if label == "" {
				label = fmt.Sprintf("%d", i)
			}
			g.oblige(final, "post", label, en.Tags, env.evalBool(en.Expr), endPos, en.Src)
		}
		if fi.Spec.HasMods || fi.Spec.Pure {
			g.frameObligations(final)
		}
	}
	return g
}

// frameObligations: heap fields not named in modifies keep their values on previously allocated objects.
func (g *FuncGen) frameObligations(final *State) {
	allowed := map[string]bool{}
	all := false
	for _, m := range g.F.Spec.Modifies {
		switch m {
		case "*":
			all = true
		case "maps":
			allowed["$maps"] = true
		default:
			allowed[g.resolveModKey(g.F, m)] = true
		}
	}
	if all {
		return
	}
	var keys []string
	for k := range final.heap {
		keys = append(keys, k)
	}
	sort.Strings(keys)
	for _, k := range keys {
		if k == "$alloc" || allowed[k] {
			continue
		}
		if strings.HasPrefix(k, "$map.") && allowed["$maps"] {
			continue
		}
		e, ok := g.entry.heap[k]
		if !ok {
			e = heapName(k) + "_0"
		}
		if final.heap[k] == e {
			continue
		}
		if isGhostKey(k) {
			if isHiddenGhost(k) {
				continue // hidden state of library objects and console output are not part of any frame
			}
			g.oblige(final, "frame", k, nil, fmt.Sprintf("(= %s %s)", final.heap[k], e), g.F.Body.Rbrace, k+" unchanged")
			continue
		}
		if strings.HasPrefix(k, "$g.") {
			g.oblige(final, "frame", k, nil, fmt.Sprintf("(= %s %s)", final.heap[k], e), g.F.Body.Rbrace, "global "+k+" unchanged")
			continue
		}
		g.oblige(final, "frame", k, nil, fmt.Sprintf("(forall ((r Int)) (=> (select alloc_0 r) (= (select %s r) (select %s r))))", final.heap[k], e), g.F.Body.Rbrace, k+" unchanged on existing objects")
	}
}

// loop ordinals are assigned in source order; count them for reporting
func countLoops(b *ast.BlockStmt) int {
	n := 0
	ast.Inspect(b, func(nd ast.Node) bool {
		switch nd.(type) {
		case *ast.FuncLit:
			return false
		case *ast.ForStmt, *ast.RangeStmt:
			n++
		}
		return true
	})
	return n
}

// ioReporting: the function may (transitively) modify the file system and its last result is an error
func ioReporting(fi *FuncInfo) bool {
	if fi == nil || fi.Sig == nil || !fi.Writes["$iofail"] {
		return false
	}
	r := fi.Sig.Results()
	return r.Len() > 0 && isErrorType(r.At(r.Len()-1).Type())
}
