package main

import (
	"fmt"
	"go/ast"
	"go/token"
	"go/types"
	"strings"
)

// Library models. Every entry is an assumed contract of a dependency (listed in the evidence).
// A library function without an entry gets the default model: arguments are evaluated, results are
// unconstrained values of their type, out-parameters (&x) are havocked, the repository heap is untouched,
// and the call is assumed not to panic.

type libModel func(g *FuncGen, c *ast.CallExpr, callee *types.Func, st *State) []Val

var libModels map[string]libModel

func init() {
	libModels = map[string]libModel{
		"sort.Slice":  libSortSlice,
		"fmt.Errorf":  libNewError,
		"errors.New":  libNewError,
		"fmt.Println": libNoop,
		"fmt.Printf":  libNoop,
		"fmt.Print":   libNoop,
		"os.Exit":     libExit,
	}
}

func (g *FuncGen) evLibCall(c *ast.CallExpr, callee *types.Func, st *State) []Val {
	name := callee.FullName()
	if m, ok := libModels[name]; ok {
		return m(g, c, callee, st)
	}
	if m, ok := libModels2[name]; ok {
		return m(g, c, callee, st)
	}
	return g.libDefault(c, callee, st)
}

func (g *FuncGen) libNote(name string) {
	n := "library call " + name + ": default model (results unconstrained, assumed panic-free, repository heap untouched)"
	for _, x := range g.notes {
		if x == n {
			return
		}
	}
	g.notes = append(g.notes, n)
}

func (g *FuncGen) libDefault(c *ast.CallExpr, callee *types.Func, st *State) []Val {
	sig := callee.Type().(*types.Signature)
	g.libNote(callee.FullName())
	// receiver
	if sel, ok := unparen(c.Fun).(*ast.SelectorExpr); ok {
		if s, ok := g.info.Selections[sel]; ok && s.Kind() == types.MethodVal {
			rv := g.ev(sel.X, st)
			if _, isPtr := types.Unalias(rv.Ty).Underlying().(*types.Pointer); isPtr || isInterface(rv.Ty) {
				src := g.exprText(sel.X)
				if !isInterface(rv.Ty) || true {
					g.oblige(st, "nil", src, nil, fmt.Sprintf("(not (= %s 0))", rv.T), c.Pos(), g.exprText(c.Fun))
				}
			}
		}
	}
	for _, a := range c.Args {
		if u, ok := unparen(a).(*ast.UnaryExpr); ok && u.Op == token.AND {
			if _, isLit := u.X.(*ast.CompositeLit); !isLit {
				// out-parameter: the target gets an arbitrary value of its type
				v := g.freshVal(st, "out", g.typeOf(u.X))
				g.assignTo(u.X, v, st)
				continue
			}
		}
		if _, isFn := unparen(a).(*ast.FuncLit); isFn {
			g.fail("closure passed to unmodelled library function %s", callee.FullName())
		}
		v := g.evMulti(a, st)
		for _, x := range v {
			if n, _, ok := structOf(x.Ty); ok && isRepoPkg(n.Obj().Pkg()) {
				if _, isPtr := types.Unalias(x.Ty).Underlying().(*types.Pointer); isPtr {
					// a library function receiving a pointer to a repository struct may only read it
					// (fmt verbs); noted as assumption
					g.libNote(callee.FullName() + " (receives *" + n.Obj().Name() + ", assumed read-only)")
				}
			}
		}
	}
	_ = sig
	return g.libResults(callee, st)
}

func isInterface(t types.Type) bool {
	if t == nil {
		return false
	}
	_, ok := types.Unalias(t).Underlying().(*types.Interface)
	return ok
}

func libNoop(g *FuncGen, c *ast.CallExpr, callee *types.Func, st *State) []Val {
	for _, a := range c.Args {
		g.evMulti(a, st)
	}
	sig := callee.Type().(*types.Signature)
	var res []Val
	for i := 0; i < sig.Results().Len(); i++ {
		res = append(res, g.freshVal(st, "lib", sig.Results().At(i).Type()))
	}
	return res
}

func libNewError(g *FuncGen, c *ast.CallExpr, callee *types.Func, st *State) []Val {
	for _, a := range c.Args {
		g.evMulti(a, st)
	}
	e := g.fresh("err", "Int")
	g.emit(fmt.Sprintf("(assert (not (= %s 0)))", e))
	return []Val{{e, types.Universe.Lookup("error").Type(), "Int"}}
}

func libExit(g *FuncGen, c *ast.CallExpr, callee *types.Func, st *State) []Val {
	for _, a := range c.Args {
		g.evMulti(a, st)
	}
	// os.Exit does not return: the path ends here
	g.assume(st, "false")
	return nil
}

// sort.Slice(x, less): x becomes a permutation of itself, ordered by less (assumed contract; valid for a
// strict weak order, which "a.F < b.F" on a totally ordered key is).
func libSortSlice(g *FuncGen, c *ast.CallExpr, callee *types.Func, st *State) []Val {
	target := c.Args[0]
	fl, ok := unparen(c.Args[1]).(*ast.FuncLit)
	if !ok || len(fl.Body.List) != 1 {
		g.fail("sort.Slice: less must be a single-return closure")
	}
	ret, ok := fl.Body.List[0].(*ast.ReturnStmt)
	if !ok || len(ret.Results) != 1 {
		g.fail("sort.Slice: less must be a single-return closure")
	}
	old := g.ev(target, st)
	if !strings.HasPrefix(old.S, "(Sq ") {
		g.fail("sort.Slice on %s", old.S)
	}
	inner := old.S[4 : len(old.S)-1]
	r := g.fresh("sorted", old.S)
	g.nfresh++
	pi := fmt.Sprintf("perm_%d", g.nfresh)
	pinv := fmt.Sprintf("perminv_%d", g.nfresh)
	g.emit(fmt.Sprintf("(declare-fun %s (Int) Int)", pi))
	g.emit(fmt.Sprintf("(declare-fun %s (Int) Int)", pinv))
	n := fmt.Sprintf("(slen %s)", old.T)
	g.assume(st, fmt.Sprintf("(= (slen %s) %s)", r, n))
	// image: every new position comes from an old one
	g.assume(st, fmt.Sprintf("(forall ((i Int)) (! (=> (and (<= 0 i) (< i %s)) (and (<= 0 (%s i)) (< (%s i) %s) (= (select (selems %s) i) (select (selems %s) (%s i))) (= (%s (%s i)) i))) :pattern ((select (selems %s) i))))",
		n, pi, pi, n, r, old.T, pi, pinv, pi, r))
	// pre-image: every old position goes somewhere
	g.assume(st, fmt.Sprintf("(forall ((j Int)) (! (=> (and (<= 0 j) (< j %s)) (and (<= 0 (%s j)) (< (%s j) %s) (= (select (selems %s) (%s j)) (select (selems %s) j)) (= (%s (%s j)) j))) :pattern ((select (selems %s) j))))",
		n, pinv, pinv, n, r, pinv, old.T, pi, pinv, old.T))
	_ = inner
	// install the result, then state sortedness through the closure body evaluated on the new slice
	g.assignTo(target, Val{r, old.Ty, old.S}, st)
	params := fl.Type.Params.List
	var pobjs []types.Object
	for _, f := range params {
		for _, nm := range f.Names {
			pobjs = append(pobjs, g.info.Defs[nm])
		}
	}
	if len(pobjs) != 2 {
		g.fail("sort.Slice: less must take two ints")
	}
	g.nfresh++
	qi := fmt.Sprintf("q_si_%d", g.nfresh)
	qj := fmt.Sprintf("q_sj_%d", g.nfresh)
	tmp := st.clone()
	// less(j, i) with j > i must be false
	tmp.vars[pobjs[0]] = Val{qj, types.Typ[types.Int], "Int"}
	tmp.vars[pobjs[1]] = Val{qi, types.Typ[types.Int], "Int"}
	g.quiet++
	// type facts emitted while evaluating under quantified variables would mention them: suppress
	saveFacts := g.factSeen
	g.factSeen = map[string]bool{}
	traceLen := len(g.trace)
	less := g.ev(ret.Results[0], tmp)
	// drop facts that mention the bound variables
	kept := g.trace[:traceLen]
	for _, l := range g.trace[traceLen:] {
		if !strings.Contains(l, qi) && !strings.Contains(l, qj) {
			kept = append(kept, l)
		}
	}
	g.trace = kept
	g.factSeen = saveFacts
	g.quiet--
	g.assume(st, fmt.Sprintf("(forall ((%s Int) (%s Int)) (! (=> (and (<= 0 %s) (< %s %s) (< %s %s)) (not %s)) :pattern ((select (selems %s) %s) (select (selems %s) %s))))",
		qi, qj, qi, qi, qj, qj, n, less.T, r, qi, r, qj))
	// the less closure only reads: heap arrays first touched in tmp must stay visible
	for k, h := range tmp.heap {
		if _, ok := st.heap[k]; !ok {
			st.heap[k] = h
		}
	}
	return nil
}

var libModels2 map[string]libModel

func init() {
	libModels2 = map[string]libModel{
		"encoding/hex.DecodeString": func(g *FuncGen, c *ast.CallExpr, callee *types.Func, st *State) []Val {
			a := g.ev(c.Args[0], st)
			res := g.libResults(callee, st)
			// a successful decode has consumed two digits per byte; the lower-case rendering of the result is the input
			// only for lower-case input, so nothing is said about hex(result)
			g.assume(st, fmt.Sprintf("(=> (= %s 0) (and (= (blen %s) (* 2 (blen %s))) (= %s (unhex %s))))", res[1].T, a.T, res[0].T, res[0].T, a.T))
			g.assume(st, fmt.Sprintf("(=> (not (= %s 0)) (= (blen %s) 0))", res[1].T, res[0].T))
			// and every byte of the input is a hexadecimal digit (0-9, A-F, a-f)
			g.assume(st, fmt.Sprintf("(=> (= %s 0) (forall ((c Int)) (! (=> (or (< c 48) (and (> c 57) (< c 65)) (and (> c 70) (< c 97)) (> c 102)) (noByte %s c)) :pattern ((noByte %s c)))))", res[1].T, a.T, a.T))
			return res
		},
		"encoding/hex.EncodeToString": func(g *FuncGen, c *ast.CallExpr, callee *types.Func, st *State) []Val {
			a := g.ev(c.Args[0], st)
			return []Val{{fmt.Sprintf("(hex %s)", a.T), types.Typ[types.String], "Bytes"}}
		},
		"strings.HasPrefix": func(g *FuncGen, c *ast.CallExpr, callee *types.Func, st *State) []Val {
			a := g.ev(c.Args[0], st)
			b := g.ev(c.Args[1], st)
			return []Val{{fmt.Sprintf("(hasPrefix %s %s)", a.T, b.T), types.Typ[types.Bool], "Bool"}}
		},
	}
}
