package main

import (
	"fmt"
	"go/ast"
	"go/types"
	"os"
	"path/filepath"
	"sort"
	"strings"
)

// Contracts name parameters and (in loop invariants) local variables. A rename of such a variable is a
// behaviour-preserving edit that must not raise an alarm, so the lock records, per function under contract, the
// parameters by position and the locals by declaration order with their types (/verif/names.lock); when a contract
// mentions a name the function no longer has, the variable that now sits at the recorded position with the recorded
// type is used instead. A heuristic: if it guesses wrongly the obligations simply fail as they would have anyway.

type nameRec struct {
	kind string // P (parameter or receiver) or L (local)
	ord  int
	name string
	typ  string
}

func funcNameRecs(fi *FuncInfo) []nameRec {
	var out []nameRec
	info := fi.Pkg.TypesInfo
	ord := 0
	if fi.Recv != nil {
		for _, nm := range fi.Recv.Names {
			if o := info.Defs[nm]; o != nil {
				out = append(out, nameRec{"P", ord, nm.Name, types.TypeString(o.Type(), nil)})
			}
			ord++
		}
	}
	if fi.Type != nil && fi.Type.Params != nil {
		for _, f := range fi.Type.Params.List {
			for _, nm := range f.Names {
				if o := info.Defs[nm]; o != nil {
					out = append(out, nameRec{"P", ord, nm.Name, types.TypeString(o.Type(), nil)})
				}
				ord++
			}
			if len(f.Names) == 0 {
				ord++
			}
		}
	}
	type loc struct {
		pos  int
		name string
		typ  string
	}
	var locs []loc
	ast.Inspect(fi.Body, func(n ast.Node) bool {
		if id, ok := n.(*ast.Ident); ok {
			if o, ok := info.Defs[id].(*types.Var); ok && o != nil && !o.IsField() && id.Name != "_" {
				locs = append(locs, loc{int(id.Pos()), id.Name, types.TypeString(o.Type(), nil)})
			}
		}
		return true
	})
	sort.Slice(locs, func(i, j int) bool { return locs[i].pos < locs[j].pos })
	for i, l := range locs {
		out = append(out, nameRec{"L", i, l.name, l.typ})
	}
	return out
}

func writeNamesLock(p *Prog) {
	var keys []string
	for k, fi := range p.Funcs {
		if fi.Spec != nil && fi.Body != nil {
			keys = append(keys, k)
		}
	}
	sort.Strings(keys)
	var sb strings.Builder
	sb.WriteString("# parameters (P) and locals (L) of the functions under contract on the reference tree: function, kind, position, name, type\n")
	for _, k := range keys {
		for _, r := range funcNameRecs(p.Funcs[k]) {
			fmt.Fprintf(&sb, "%s\t%s\t%d\t%s\t%s\n", k, r.kind, r.ord, r.name, r.typ)
		}
	}
	os.WriteFile(filepath.Join(verifDir, "names.lock"), []byte(sb.String()), 0o644)
}

// loadRenames: for every function under contract, recorded name -> current name, for recorded names that are gone.
func (p *Prog) loadRenames() {
	p.Renames = map[string]map[string]string{}
	ref := map[string][]nameRec{}
	for _, l := range readLines(filepath.Join(verifDir, "names.lock")) {
		f := strings.Split(l, "\t")
		if len(f) != 5 {
			continue
		}
		var ord int
		fmt.Sscanf(f[2], "%d", &ord)
		ref[f[0]] = append(ref[f[0]], nameRec{f[1], ord, f[3], f[4]})
	}
	for key, recs := range ref {
		fi := p.Funcs[key]
		if fi == nil || fi.Spec == nil || fi.Body == nil {
			continue
		}
		cur := funcNameRecs(fi)
		have := map[string]bool{}
		for _, c := range cur {
			have[c.name] = true
		}
		old := map[string]bool{}
		for _, r := range recs {
			old[r.name] = true
		}
		m := map[string]string{}
		used := map[string]bool{}
		for _, r := range recs {
			if have[r.name] || m[r.name] != "" {
				continue
			}
			// same kind, same position, same type, and a name the reference tree did not have
			for _, c := range cur {
				if c.kind == r.kind && c.ord == r.ord && c.typ == r.typ && !old[c.name] && !used[c.name] {
					m[r.name] = c.name
					used[c.name] = true
				}
			}
		}
		for _, r := range recs {
			if have[r.name] || m[r.name] != "" {
				continue
			}
			// positions shifted: the only new variable of that kind and type
			var cands []string
			for _, c := range cur {
				if c.kind == r.kind && c.typ == r.typ && !old[c.name] && !used[c.name] {
					cands = append(cands, c.name)
				}
			}
			if len(cands) == 1 {
				m[r.name] = cands[0]
				used[cands[0]] = true
			}
		}
		if len(m) > 0 {
			p.Renames[key] = m
		}
	}
}

func (g *FuncGen) noteOnce(n string) {
	for _, x := range g.notes {
		if x == n {
			return
		}
	}
	g.notes = append(g.notes, n)
}
