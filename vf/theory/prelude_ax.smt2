(assert (forall ((s Bytes)) (! (>= (blen s) 0) :pattern ((blen s)))))
(assert (= (blen bempty) 0))
(assert (forall ((s Bytes)) (! (=> (= (blen s) 0) (= s bempty)) :pattern ((blen s)))))
(assert (forall ((a Bytes) (b Bytes)) (! (=> (= (rank a) (rank b)) (= a b)) :pattern ((rank a) (rank b)))))
(assert (forall ((a Bytes) (b Bytes)) (! (= (blen (bcat a b)) (+ (blen a) (blen b))) :pattern ((bcat a b)))))
(assert (forall ((a Bytes) (b Bytes) (i Int)) (! (=> (and (<= 0 i) (< i (+ (blen a) (blen b))))
    (= (bat (bcat a b) i) (ite (< i (blen a)) (bat a i) (bat b (- i (blen a)))))) :pattern ((bat (bcat a b) i)))))
(assert (forall ((c Int)) (! (= (blen (byte1 c)) 1) :pattern ((byte1 c)))))
(assert (forall ((c Int)) (! (=> (and (<= 0 c) (<= c 255)) (= (bat (byte1 c) 0) c)) :pattern ((byte1 c)))))
(assert (forall ((s Bytes) (i Int) (j Int)) (! (=> (and (<= 0 i) (<= i j) (<= j (blen s))) (= (blen (bsub s i j)) (- j i))) :pattern ((bsub s i j)))))
(assert (forall ((s Bytes) (i Int) (j Int) (k Int)) (! (=> (and (<= 0 i) (<= i j) (<= j (blen s)) (<= 0 k) (< k (- j i)))
    (= (bat (bsub s i j) k) (bat s (+ i k)))) :pattern ((bat (bsub s i j) k)))))
(assert (forall ((s Bytes)) (! (= (bsub s 0 (blen s)) s) :pattern ((bsub s 0 (blen s))))))
(assert (forall ((n Int)) (! (=> (<= 0 n) (= (blen (bzeros n)) n)) :pattern ((bzeros n)))))
(assert (forall ((s Bytes) (i Int)) (! (and (<= 0 (bat s i)) (<= (bat s i) 255)) :pattern ((bat s i)))))
(assert (forall ((a Bytes)) (! (= (bcat a bempty) a) :pattern ((bcat a bempty)))))
(assert (forall ((a Bytes)) (! (= (bcat bempty a) a) :pattern ((bcat bempty a)))))
(assert (forall ((i Int)) (! (= (select zarr_Int i) 0) :pattern ((select zarr_Int i)))))
(assert (forall ((i Int)) (! (= (select zarr_Bytes i) bempty) :pattern ((select zarr_Bytes i)))))
; ---- hasPrefix(s, p): s starts with p
(assert (forall ((s Bytes) (p Bytes)) (! (=> (hasPrefix s p) (and (<= (blen p) (blen s)) (= (bsub s 0 (blen p)) p))) :pattern ((hasPrefix s p)))))
(assert (forall ((s Bytes) (p Bytes)) (! (=> (and (<= (blen p) (blen s)) (= (bsub s 0 (blen p)) p)) (hasPrefix s p)) :pattern ((hasPrefix s p)))))
(assert (forall ((s Bytes) (p Bytes)) (! (=> (and (hasPrefix s p) (= (blen s) (blen p))) (= s p)) :pattern ((hasPrefix s p)))))
(assert (forall ((a Bytes) (b Bytes)) (! (hasPrefix (bcat a b) a) :pattern ((hasPrefix (bcat a b) a)))))
(assert (forall ((a Bytes) (b Bytes) (c Bytes)) (! (= (hasPrefix (bcat a b) (bcat a c)) (hasPrefix b c)) :pattern ((hasPrefix (bcat a b) (bcat a c))))))
; L-prefix-lt: a proper extension is greater than its prefix
(assert (forall ((s Bytes) (p Bytes)) (! (=> (and (hasPrefix s p) (not (= s p))) (< (rank p) (rank s))) :pattern ((hasPrefix s p)))))
; L-convex: q <= a <= b and b starts with q  ==>  a starts with q
(assert (forall ((a Bytes) (b Bytes) (q Bytes)) (! (=> (and (<= (rank q) (rank a)) (<= (rank a) (rank b)) (hasPrefix b q)) (hasPrefix a q)) :pattern ((hasPrefix b q) (hasPrefix a q)))))
; ---- hex
(assert (forall ((s Bytes)) (! (= (blen (hex s)) (* 2 (blen s))) :pattern ((hex s)))))
(assert (forall ((s Bytes)) (! (= (unhex (hex s)) s) :pattern ((hex s)))))
; ---- decimal formatting: fmtd(n, w) is fmt.Sprintf("%0wd", n) (w = 0: plain %d)
(assert (forall ((n Int) (w Int)) (! (=> (and (<= 0 n) (<= n 9)) (= (blen (fmtd n w)) (ite (> w 1) w 1))) :pattern ((fmtd n w)))))
(assert (forall ((n Int) (w Int)) (! (=> (and (<= 10 n) (<= n 99)) (= (blen (fmtd n w)) (ite (> w 2) w 2))) :pattern ((fmtd n w)))))
(assert (forall ((n Int) (w Int)) (! (=> (and (<= (- 9) n) (< n 0)) (= (blen (fmtd n w)) (ite (> w 2) w 2))) :pattern ((fmtd n w)))))
(assert (forall ((n Int) (w Int)) (! (>= (blen (fmtd n w)) 1) :pattern ((fmtd n w)))))
(assert (forall ((a Int) (b Int) (w Int)) (! (=> (= (fmtd a w) (fmtd b w)) (= a b)) :pattern ((fmtd a w) (fmtd b w)))))
(assert (forall ((n Int)) (! (= (atoi (fmtd n 0)) n) :pattern ((fmtd n 0)))))
(assert (forall ((a Int) (b Int) (w Int)) (! (=> (= (fmtdp a w) (fmtdp b w)) (= a b)) :pattern ((fmtdp a w) (fmtdp b w)))))
; ---- time
(assert (forall ((u Int) (o Int)) (! (and (= (time_unix (mk_time u o)) u) (= (time_off (mk_time u o)) o)) :pattern ((mk_time u o)))))
; ---- errors
(assert (forall ((e Int)) (! (=> (isNotExist e) (not (= e 0))) :pattern ((isNotExist e)))))
; ---- concatenation is cancellative
(assert (forall ((a Bytes) (b Bytes) (c Bytes)) (! (=> (= (bcat a b) (bcat a c)) (= b c)) :pattern ((bcat a b) (bcat a c)))))
(assert (forall ((a Bytes) (b Bytes) (c Bytes)) (! (= (bcat (bcat a b) c) (bcat a (bcat b c))) :pattern ((bcat (bcat a b) c)))))
; ---- split at the first occurrence (strings.SplitN(s, sep, 2)); sep non-empty
(assert (forall ((s Bytes) (p Bytes)) (! (=> (and (contains s p) (> (blen p) 0)) (and (= s (bcat (splitHead s p) (bcat p (splitTail s p)))) (not (contains (splitHead s p) p)))) :pattern ((contains s p)))))
(assert (forall ((s Bytes) (p Bytes)) (! (=> (not (contains s p)) (= (splitHead s p) s)) :pattern ((splitHead s p)))))
(assert (forall ((a Bytes) (p Bytes) (b Bytes)) (! (contains (bcat a (bcat p b)) p) :pattern ((contains (bcat a (bcat p b)) p)))))
(assert (forall ((a Bytes) (p Bytes) (b Bytes)) (! (=> (and (= (blen p) 1) (not (contains a p))) (and (= (splitHead (bcat a (bcat p b)) p) a) (= (splitTail (bcat a (bcat p b)) p) b) (contains (bcat a (bcat p b)) p))) :pattern ((bcat a (bcat p b))))))
(assert (forall ((s Bytes) (p Bytes)) (! (=> (contains s p) (<= (blen p) (blen s))) :pattern ((contains s p)))))
(assert (forall ((a Bytes) (b Bytes) (p Bytes)) (! (=> (contains a p) (contains (bcat a b) p)) :pattern ((contains (bcat a b) p)))))
(assert (forall ((a Bytes) (b Bytes) (p Bytes)) (! (=> (contains b p) (contains (bcat a b) p)) :pattern ((contains (bcat a b) p)))))
; splitting at a one-byte separator skips a prefix that does not contain it
(assert (forall ((x Bytes) (y Bytes) (p Bytes)) (! (=> (and (= (blen p) 1) (not (contains x p)) (contains y p)) (and (= (splitHead (bcat x y) p) (bcat x (splitHead y p))) (= (splitTail (bcat x y) p) (splitTail y p)))) :pattern ((splitHead (bcat x y) p)) :pattern ((splitTail (bcat x y) p)))))
; ---- paths: joining with a valid component is injective and never yields the parent
(assert (forall ((a Bytes) (b Bytes) (c Bytes) (d Bytes)) (! (=> (and (= (pjoin a b) (pjoin c d)) (validName b) (validName d)) (and (= a c) (= b d))) :pattern ((pjoin a b) (pjoin c d)))))
(assert (forall ((a Bytes) (b Bytes)) (! (=> (validName b) (not (= (pjoin a b) a))) :pattern ((pjoin a b)))))
(assert (forall ((h Bytes) (i Int) (j Int)) (! (=> (and (<= 0 i) (< i j) (<= j (blen (hex h)))) (validName (bsub (hex h) i j))) :pattern ((bsub (hex h) i j)))))
; ---- zlib and sha1 (assumed contracts of compress/zlib and crypto/sha1)
(assert (forall ((x Bytes)) (! (and (= (zlibDec (zlibEnc x)) x) (validZlib (zlibEnc x))) :pattern ((zlibEnc x)))))
(assert (forall ((x Bytes)) (! (= (blen (sha1 x)) 20) :pattern ((sha1 x)))))
; A-SHA1 (collision-freedom, assumed): equal ids come from equal preimages
(assert (forall ((x Bytes) (y Bytes)) (! (=> (= (sha1 x) (sha1 y)) (= x y)) :pattern ((sha1 x) (sha1 y)))))
; ---- first occurrence of a byte at or after a position (blen if there is none)
(assert (forall ((s Bytes) (c Int) (k Int)) (! (=> (and (<= 0 k) (<= k (blen s))) (and (<= k (indexOfByte s c k)) (<= (indexOfByte s c k) (blen s)))) :pattern ((indexOfByte s c k)))))
(assert (forall ((s Bytes) (c Int) (k Int) (i Int)) (! (=> (and (<= 0 k) (<= k i) (< i (indexOfByte s c k))) (not (= (bat s i) c))) :pattern ((indexOfByte s c k) (bat s i)))))
(assert (forall ((s Bytes) (c Int) (k Int)) (! (=> (and (<= 0 k) (<= k (blen s)) (< (indexOfByte s c k) (blen s))) (= (bat s (indexOfByte s c k)) c)) :pattern ((indexOfByte s c k)))))
; ---- more sequence lemmas
; L-snoc: extending a slice by the next byte
(assert (forall ((s Bytes) (i Int) (j Int)) (! (=> (and (<= 0 i) (<= i j) (< j (blen s))) (= (bcat (bsub s i j) (byte1 (bat s j))) (bsub s i (+ j 1)))) :pattern ((bcat (bsub s i j) (byte1 (bat s j)))))))
; L-sub-sub
(assert (forall ((s Bytes) (i Int) (j Int) (k Int) (l Int)) (! (=> (and (<= 0 i) (<= i j) (<= j (blen s)) (<= 0 k) (<= k l) (<= l (- j i)) (< (- j i) (blen s))) (= (bsub (bsub s i j) k l) (bsub s (+ i k) (+ i l)))) :pattern ((bsub (bsub s i j) k l)))))
; L-sub-empty
(assert (forall ((s Bytes) (i Int)) (! (=> (and (<= 0 i) (<= i (blen s))) (= (bsub s i i) bempty)) :pattern ((bsub s i i)))))
; L-sub-cat: a slice splits at any interior point
(assert (forall ((s Bytes) (i Int) (j Int) (k Int)) (! (=> (and (<= 0 i) (<= i j) (<= j k) (<= k (blen s))) (= (bcat (bsub s i j) (bsub s j k)) (bsub s i k))) :pattern ((bcat (bsub s i j) (bsub s j k))))))
; single-byte containment is about positions
(assert (forall ((s Bytes) (c Int)) (! (=> (contains s (byte1 c)) (exists ((i Int)) (and (<= 0 i) (< i (blen s)) (= (bat s i) c)))) :pattern ((contains s (byte1 c))))))
(assert (forall ((s Bytes) (c Int) (i Int)) (! (=> (and (<= 0 i) (< i (blen s)) (= (bat s i) c)) (contains s (byte1 c))) :pattern ((contains s (byte1 c)) (bat s i)))))
; decimal numerals: digits and an optional minus sign only
(assert (forall ((n Int) (w Int) (i Int)) (! (=> (and (<= 0 i) (< i (blen (fmtd n w)))) (or (= (bat (fmtd n w) i) 45) (and (<= 48 (bat (fmtd n w) i)) (<= (bat (fmtd n w) i) 57)))) :pattern ((bat (fmtd n w) i)))))
(assert (forall ((n Int)) (! (startsWithInt (fmtd n 0)) :pattern ((fmtd n 0)))))
; ---- noByte(s, c): byte c does not occur in s
(assert (forall ((s Bytes) (c Int) (i Int)) (! (=> (and (noByte s c) (<= 0 i) (< i (blen s))) (not (= (bat s i) c))) :pattern ((noByte s c) (bat s i)))))
(assert (forall ((s Bytes) (c Int)) (! (=> (not (noByte s c)) (exists ((i Int)) (and (<= 0 i) (< i (blen s)) (= (bat s i) c)))) :pattern ((noByte s c)))))
(assert (forall ((a Bytes) (b Bytes) (c Int)) (! (= (noByte (bcat a b) c) (and (noByte a c) (noByte b c))) :pattern ((noByte (bcat a b) c)))))
(assert (forall ((c Int)) (! (noByte bempty c) :pattern ((noByte bempty c)))))
(assert (forall ((n Int) (w Int) (c Int)) (! (=> (and (not (= c 45)) (or (< c 48) (> c 57))) (noByte (fmtd n w) c)) :pattern ((noByte (fmtd n w) c)))))
(assert (forall ((s Bytes) (c Int)) (! (=> (not (contains s (byte1 c))) (noByte s c)) :pattern ((contains s (byte1 c))))))
(assert (forall ((s Bytes) (c Int)) (! (=> (contains s (byte1 c)) (not (noByte s c))) :pattern ((contains s (byte1 c))))))
(assert (forall ((h Bytes) (c Int)) (! (=> (or (< c 48) (and (> c 57) (< c 97)) (> c 102)) (noByte (hex h) c)) :pattern ((noByte (hex h) c)))))
; ---- peeling a (right-nested) concatenation
; first occurrence of c from the start
(assert (forall ((a Bytes) (b Bytes) (c Int)) (! (= (indexOfByte (bcat a b) c 0) (ite (noByte a c) (+ (blen a) (indexOfByte b c 0)) (indexOfByte a c 0))) :pattern ((indexOfByte (bcat a b) c 0)))))
(assert (forall ((s Bytes) (c Int) (k Int) (i Int)) (! (=> (and (<= 0 k) (<= k i) (< i (blen s)) (= (bat s i) c)) (<= (indexOfByte s c k) i)) :pattern ((indexOfByte s c k) (bat s i)))))
(assert (forall ((s Bytes) (c Int)) (! (=> (and (> (blen s) 0) (= (bat s 0) c)) (= (indexOfByte s c 0) 0)) :pattern ((indexOfByte s c 0)))))
; prefix of a concatenation that covers the first part
(assert (forall ((a Bytes) (b Bytes) (j Int)) (! (=> (and (<= (blen a) j) (<= j (+ (blen a) (blen b)))) (= (bsub (bcat a b) 0 j) (bcat a (bsub b 0 (- j (blen a)))))) :pattern ((bsub (bcat a b) 0 j)))))
; slice of a concatenation that starts after the first part
(assert (forall ((a Bytes) (b Bytes) (i Int) (j Int)) (! (=> (and (<= (blen a) i) (<= i j) (<= j (+ (blen a) (blen b)))) (= (bsub (bcat a b) i j) (bsub b (- i (blen a)) (- j (blen a))))) :pattern ((bsub (bcat a b) i j)))))
(assert (forall ((s Bytes)) (! (= (bsub s 0 0) bempty) :pattern ((bsub s 0 0)))))
; ---- strings.Split(s, sep), sep non-empty: head, then the split of the tail
(assert (forall ((s Bytes) (p Bytes)) (! (>= (slen (splitAll s p)) 1) :pattern ((splitAll s p)))))
(assert (forall ((s Bytes) (p Bytes)) (! (=> (> (blen p) 0) (= (contains s p) (>= (slen (splitAll s p)) 2))) :pattern ((splitAll s p)))))
(assert (forall ((s Bytes) (p Bytes)) (! (=> (not (contains s p)) (and (= (slen (splitAll s p)) 1) (= (select (selems (splitAll s p)) 0) s))) :pattern ((splitAll s p)))))
(assert (forall ((s Bytes) (p Bytes)) (! (=> (and (contains s p) (> (blen p) 0)) (and (= (select (selems (splitAll s p)) 0) (splitHead s p)) (= (slen (splitAll s p)) (+ 1 (slen (splitAll (splitTail s p) p)))))) :pattern ((splitAll s p)))))
(assert (forall ((s Bytes) (p Bytes) (i Int)) (! (=> (and (contains s p) (> (blen p) 0) (<= 1 i) (< i (slen (splitAll s p)))) (= (select (selems (splitAll s p)) i) (select (selems (splitAll (splitTail s p) p)) (- i 1)))) :pattern ((select (selems (splitAll s p)) i)))))
(assert (forall ((s Bytes) (i Int) (j Int) (c Int)) (! (=> (and (noByte s c) (<= 0 i) (<= i j) (<= j (blen s))) (noByte (bsub s i j) c)) :pattern ((noByte (bsub s i j) c)))))
; validName(s): a path component: non-empty, no '/', no NUL, not "." or ".."
(assert (forall ((s Bytes)) (! (= (validName s) (and (> (blen s) 0) (noByte s 47) (noByte s 0) (not (= s (byte1 46))) (not (= s (bcat (byte1 46) (byte1 46)))))) :pattern ((validName s)))))
; ---- more on contains / digits
(assert (forall ((s Bytes) (p Bytes)) (! (=> (and (contains s p) (> (blen p) 0)) (not (noByte s (bat p 0)))) :pattern ((contains s p)))))
(assert (forall ((p Bytes) (b Bytes)) (! (=> (> (blen p) 0) (and (contains (bcat p b) p) (= (splitHead (bcat p b) p) bempty) (= (splitTail (bcat p b) p) b))) :pattern ((contains (bcat p b) p)))))
(assert (forall ((p Bytes) (b Bytes)) (! (=> (> (blen p) 0) (and (contains (bcat p b) p) (= (splitHead (bcat p b) p) bempty) (= (splitTail (bcat p b) p) b))) :pattern ((splitAll (bcat p b) p)))))
(assert (forall ((d Bytes) (c Int)) (! (=> (and (allDigits d) (or (< c 48) (> c 57))) (noByte d c)) :pattern ((allDigits d) (noByte d c)))))
; joining the same base with two clean relative paths gives the same path only for the same relative path (assumed: staged paths are clean)
(assert (forall ((a Bytes) (b Bytes) (c Bytes)) (! (=> (= (pjoin a b) (pjoin a c)) (= b c)) :pattern ((pjoin a b) (pjoin a c)))))
(assert (not (validZlib bempty)))
; isTokOf s p t: t is one of the tokens a scanner splitting at p hands out for s (tokens("") = [], tokens(s) = [s] when p does
; not occur, tokens(s) = splitHead :: tokens(splitTail) otherwise); the trailing empty token after a final separator is not one
; @needs isTokOf
(assert (forall ((s Bytes) (p Bytes)) (! (=> (and (> (blen s) 0) (> (blen p) 0)) (isTokOf s p (splitHead s p))) :pattern ((splitHead s p)))))
(assert (forall ((s Bytes) (p Bytes) (t Bytes)) (! (=> (and (contains s p) (> (blen p) 0) (isTokOf (splitTail s p) p t)) (isTokOf s p t)) :pattern ((isTokOf (splitTail s p) p t)))))
(assert (forall ((p Bytes) (t Bytes)) (! (not (isTokOf bempty p t)) :pattern ((isTokOf bempty p t)))))
; a prefix of a is a prefix of a·b
(assert (forall ((a Bytes) (b Bytes) (p Bytes)) (! (=> (hasPrefix a p) (hasPrefix (bcat a b) p)) :pattern ((hasPrefix (bcat a b) p)))))
; joining a valid component makes a clean path strictly longer (so no path is its own descendant)
(assert (forall ((a Bytes) (b Bytes)) (! (=> (validName b) (> (blen (pjoin a b)) (blen a))) :pattern ((pjoin a b)))))
; filepath.Dir never lengthens a path, and a path that is not its own parent is strictly longer than its parent;
; the absolute form of (the parent of) an absolute path is that path itself
(assert (forall ((p Bytes)) (! (and (<= (blen (pdir p)) (blen p)) (=> (not (= (pdir p) p)) (< (blen (pdir p)) (blen p)))) :pattern ((pdir p)))))
(assert (forall ((p Bytes)) (! (= (absPath (pdir (absPath p))) (pdir (absPath p))) :pattern ((pdir (absPath p))))))
; scanStep s: always true; a marker term the line-scanner model leaves for every text it splits a line off, so that
; recursive definitions over the lines of a text (one unfolding per line) are instantiated there and nowhere else
; @needs scanStep
(assert (forall ((s Bytes)) (! (scanStep s) :pattern ((scanStep s)))))
; strings.ReplaceAll / strings.TrimSpace introduce no byte that neither the text nor the replacement has; trimming shortens
; @needs replaceAll
(assert (forall ((s Bytes) (a Bytes) (b Bytes) (c Int)) (! (=> (and (noByte s c) (noByte b c)) (noByte (replaceAll s a b) c)) :pattern ((noByte (replaceAll s a b) c)))))
; @needs trimSpace
(assert (forall ((s Bytes) (c Int)) (! (=> (noByte s c) (noByte (trimSpace s) c)) :pattern ((noByte (trimSpace s) c)))))
; @needs trimSpace
(assert (forall ((s Bytes)) (! (<= (blen (trimSpace s)) (blen s)) :pattern ((trimSpace s)))))
; the two parts of a split have no byte the whole does not have
(assert (forall ((s Bytes) (p Bytes) (c Int)) (! (=> (and (noByte s c) (contains s p)) (noByte (splitTail s p) c)) :pattern ((noByte (splitTail s p) c)))))
(assert (forall ((s Bytes) (p Bytes) (c Int)) (! (=> (noByte s c) (noByte (splitHead s p) c)) :pattern ((noByte (splitHead s p) c)))))
; a two-byte separator of two different bytes cannot straddle the end of a text that does not contain it: the split of
; a ++ p ++ b is (a, b) as for one-byte separators
(assert (forall ((a Bytes) (p Bytes) (b Bytes)) (! (=> (and (= (blen p) 2) (not (= (bat p 0) (bat p 1))) (not (contains a p))) (and (= (splitHead (bcat a (bcat p b)) p) a) (= (splitTail (bcat a (bcat p b)) p) b) (contains (bcat a (bcat p b)) p))) :pattern ((splitHead (bcat a (bcat p b)) p)) :pattern ((splitTail (bcat a (bcat p b)) p)) :pattern ((contains (bcat a (bcat p b)) p)))))
