package main

import (
	"regexp"
	"strings"
	"sync"
)

// Axiom slicing: an E-matching axiom can only fire when every function symbol of one of its patterns occurs in a
// ground term. Ground terms come from the query and from bodies of axioms already able to fire. Axioms outside
// that fixpoint are dropped from the query (always sound: fewer hypotheses; it only removes search noise).

type axBlock struct {
	text     string
	patSyms  [][]string // per pattern: the prelude function symbols it mentions
	bodySyms []string
	needs    []string // "; @needs f": the axiom only derives facts about f, useless unless the query itself mentions f
}

var (
	axBlocks   []axBlock
	axOnce     sync.Once
	symRe      = regexp.MustCompile(`[A-Za-z_][A-Za-z0-9_]*`)
	preludeSym map[string]bool
)

func initAxBlocks() {
	preludeSym = map[string]bool{}
	declRe := regexp.MustCompile(`\((?:declare-fun|declare-const|define-fun) ([A-Za-z0-9_]+)`)
	for _, m := range declRe.FindAllStringSubmatch(preludeSig, -1) {
		preludeSym[m[1]] = true
	}
	// split into top-level s-expressions
	var cur strings.Builder
	var needs []string
	depth := 0
	for _, l := range strings.Split(preludeAx, "\n") {
		t := strings.TrimSpace(l)
		if strings.HasPrefix(t, "; @needs ") {
			needs = append(needs, strings.Fields(t[len("; @needs "):])...)
			continue
		}
		if t == "" || strings.HasPrefix(t, ";") {
			continue
		}
		cur.WriteString(l)
		cur.WriteString("\n")
		depth += strings.Count(l, "(") - strings.Count(l, ")")
		if depth == 0 {
			b := mkBlock(cur.String())
			b.needs = needs
			needs = nil
			axBlocks = append(axBlocks, b)
			cur.Reset()
		}
	}
}

func symsOf(s string) []string {
	seen := map[string]bool{}
	var out []string
	for _, t := range symRe.FindAllString(s, -1) {
		if preludeSym[t] && !seen[t] {
			seen[t] = true
			out = append(out, t)
		}
	}
	return out
}

func mkBlock(text string) axBlock {
	b := axBlock{text: text, bodySyms: symsOf(text)}
	rest := text
	for {
		i := strings.Index(rest, ":pattern (")
		if i < 0 {
			break
		}
		j := i + len(":pattern (")
		depth := 1
		k := j
		for k < len(rest) && depth > 0 {
			switch rest[k] {
			case '(':
				depth++
			case ')':
				depth--
			}
			k++
		}
		b.patSyms = append(b.patSyms, symsOf(rest[j:k]))
		rest = rest[k:]
	}
	return b
}

// sliceAxioms returns the axioms that can fire for a query with the given text (trace + goal).
func sliceAxioms(query string) string {
	axOnce.Do(initAxBlocks)
	have := map[string]bool{}
	inQuery := map[string]bool{}
	for _, s := range symsOf(query) {
		have[s] = true
		inQuery[s] = true
	}
	// structural symbols always considered present
	for _, s := range []string{"blen", "bempty"} {
		have[s] = true
	}
	used := make([]bool, len(axBlocks))
	for changed := true; changed; {
		changed = false
		for i, b := range axBlocks {
			if used[i] {
				continue
			}
			skip := false
			for _, n := range b.needs {
				if !inQuery[n] {
					skip = true
				}
			}
			if skip {
				continue
			}
			fire := len(b.patSyms) == 0
			for _, p := range b.patSyms {
				all := true
				for _, s := range p {
					if !have[s] {
						all = false
						break
					}
				}
				if all {
					fire = true
					break
				}
			}
			if len(b.patSyms) == 0 {
				// ground fact: keep when it talks about something present
				fire = false
				for _, s := range b.bodySyms {
					if have[s] {
						fire = true
					}
				}
				if len(b.bodySyms) == 0 {
					fire = true
				}
			}
			if fire {
				used[i] = true
				changed = true
				for _, s := range b.bodySyms {
					have[s] = true
				}
			}
		}
	}
	var sb strings.Builder
	for i, b := range axBlocks {
		if used[i] {
			sb.WriteString(b.text)
		}
	}
	return sb.String()
}
