package main

import (
	"bufio"
	"encoding/json"
	"flag"
	"fmt"
	"go/types"
	"os"
	"os/exec"
	"path/filepath"
	"sort"
	"strconv"
	"strings"
	"sync"
	"time"
)

// verifDir: where lock, findings, harnesses, cache and evidence live (VF_VERIF_DIR points experiments at a snapshot)
var verifDir = func() string {
	if d := os.Getenv("VF_VERIF_DIR"); d != "" {
		return d
	}
	return "/verif"
}()

// decoders: functions that parse bytes found on disk (C19 owns their safety obligations).
var decoderFuncs = map[string]bool{
	"object.GetObject": true, "object.readHeader": true, "object.walkTree": true, "object.NewCommit": true,
	"object.readSign": true, "object.NewTree": true, "object.Tree.load": true,
	"store.Index.read": true, "store.NewIndex": true, "store.Config.load": true, "store.NewConfig": true,
	"store.NewHead": true, "store.getHeadCommit": true, "store.branch.loadHash": true, "store.NewRefs": true,
	"store.Reflog.load": true, "store.NewReflog": true, "store.Ignore.load": true, "store.NewIgnore": true,
	"sha.ReadHash": true, "binary.ReadNullTerminatedString": true,
}

var safetyKinds = map[string]bool{"nil": true, "bounds": true, "div": true, "mapnil": true, "panic": true, "regexp": true, "alloc": true}

func isSafety(o *Obligation) bool {
	return safetyKinds[o.Kind] || strings.HasPrefix(o.Kind, "dec/")
}

func funcTags(fi *FuncInfo) map[string]bool {
	t := map[string]bool{}
	if fi.Spec == nil {
		return t
	}
	add := func(cs []*Clause) {
		for _, c := range cs {
			for _, x := range c.Tags {
				t[x] = true
			}
		}
	}
	add(fi.Spec.Requires)
	add(fi.Spec.Ensures)
	for _, l := range fi.Spec.Loops {
		add(l.Invariants)
		if l.Decreases != nil {
			add([]*Clause{l.Decreases})
		}
	}
	if fi.Spec.Decr != nil {
		add([]*Clause{fi.Spec.Decr})
	}
	return t
}

// propsOf: which properties an obligation serves.
func propsOf(fi *FuncInfo, o *Obligation) []string {
	set := map[string]bool{}
	for t := range funcTags(fi) {
		set[t] = true
	}
	if o.Kind == "iofail" || strings.HasPrefix(o.Kind, "iofail-keep/") {
		set["C16"] = true
	}
	if o.Kind == "lemma" {
		for _, t := range o.Tags {
			set[t] = true
		}
	}
	if isSafety(o) {
		set["C18"] = true
		if decoderFuncs[fi.Key] {
			set["C19"] = true
		}
	}
	var out []string
	for k := range set {
		out = append(out, k)
	}
	sort.Strings(out)
	return out
}

func hasProp(ps []string, id string) bool {
	for _, p := range ps {
		if p == id {
			return true
		}
	}
	return false
}

// ---------- lock / findings / undecided files ----------

func readLines(path string) []string {
	f, err := os.Open(path)
	if err != nil {
		return nil
	}
	defer f.Close()
	var out []string
	sc := bufio.NewScanner(f)
	sc.Buffer(make([]byte, 1<<20), 1<<20)
	for sc.Scan() {
		l := strings.TrimSpace(sc.Text())
		if l == "" || strings.HasPrefix(l, "#") {
			continue
		}
		out = append(out, l)
	}
	return out
}

var lockHints = map[string]string{}

func loadLock() map[string][]string {
	m := map[string][]string{}
	for _, l := range readLines(filepath.Join(verifDir, "obligations.lock")) {
		parts := strings.Split(l, "\t")
		if len(parts) >= 2 {
			m[parts[0]] = strings.Split(parts[1], ",")
		} else {
			m[parts[0]] = nil
		}
		if len(parts) >= 3 {
			lockHints[parts[0]] = parts[2]
		}
	}
	return m
}

type Finding struct {
	Prop       string
	Obligation string
	What       string
	Fixed      bool
	Commit     string
}

// known-findings.txt lines:
//
//	finding: property=C06 obligation=<name> what=<free text to end of line>
//	fixed: property=C12 <commit> <what failed>
func loadFindings() []Finding {
	var out []Finding
	for _, l := range readLines(filepath.Join(verifDir, "known-findings.txt")) {
		switch {
		case strings.HasPrefix(l, "finding:"):
			f := Finding{}
			rest := strings.TrimSpace(strings.TrimPrefix(l, "finding:"))
			if i := strings.Index(rest, " what="); i >= 0 {
				f.What = rest[i+6:]
				rest = rest[:i]
			}
			for _, kv := range strings.Fields(rest) {
				if strings.HasPrefix(kv, "property=") {
					f.Prop = strings.TrimPrefix(kv, "property=")
				}
				if strings.HasPrefix(kv, "obligation=") {
					f.Obligation = strings.TrimPrefix(kv, "obligation=")
				}
			}
			out = append(out, f)
		case strings.HasPrefix(l, "fixed:"):
			out = append(out, Finding{Fixed: true, What: strings.TrimSpace(strings.TrimPrefix(l, "fixed:"))})
		}
	}
	return out
}

func loadUndecided() map[string]bool {
	m := map[string]bool{}
	for _, l := range readLines(filepath.Join(verifDir, "undecided.txt")) {
		m[strings.Split(l, "\t")[0]] = true
	}
	return m
}

// ---------- running ----------

type runResult struct {
	p    *Prog
	gens []*FuncGen
	s    *Solver
	wall float64
}

func generate(p *Prog, want func(*FuncInfo) bool) []*FuncGen {
	var keys []string
	for k := range p.Funcs {
		keys = append(keys, k)
	}
	sort.Strings(keys)
	var gens []*FuncGen
	for _, k := range keys {
		fi := p.Funcs[k]
		if want(fi) {
			gens = append(gens, p.genFunc(fi))
		}
	}
	// lemmas of the contract files: one pseudo-function per package
	var pks []string
	for short := range p.Specs {
		pks = append(pks, short)
	}
	sort.Strings(pks)
	for _, short := range pks {
		has := false
		for _, ax := range p.Specs[short].Axioms {
			has = has || ax.Lemma
		}
		if !has {
			continue
		}
		fi := &FuncInfo{Key: short + ".lemmas", Short: "lemmas", Pkg: p.Pkgs[short]}
		if want(fi) {
			gens = append(gens, p.genLemmas(fi))
		}
	}
	return gens
}

// genLemmas: each lemma is an obligation proved from the background theory and the axioms and lemmas stated before it.
func (p *Prog) genLemmas(fi *FuncInfo) (g *FuncGen) {
	g = &FuncGen{P: p, F: fi, occ: map[string]int{}, factSeen: map[string]bool{}, lits: map[string]string{},
		heapKeys: map[string]string{}, declSeen: map[string]bool{}, info: fi.Pkg.TypesInfo}
	short := pkgShort(fi.Pkg.Types)
	g.lemmaPkg = short
	defer func() {
		if r := recover(); r != nil {
			if ue, ok := r.(unboundErr); ok {
				g.unbound = ue.msg
				return
			}
			panic(r)
		}
	}()
	g.emit("(declare-const alloc_0 (Array Int Bool))")
	g.emit("(assert (not (select alloc_0 0)))")
	g.entry = &State{vars: map[types.Object]Val{}, heap: map[string]string{"$alloc": "alloc_0"}, pc: "true"}
	for i, ax := range p.Specs[short].Axioms {
		if !ax.Lemma {
			continue
		}
		g.lemmaIdx = i
		// axioms emitted for an earlier lemma stay in the trace: they precede this one too
		f := g.axiomFormula(fi.Pkg, ax)
		g.obls = append(g.obls, &Obligation{Name: fi.Key + "#lemma[" + ax.Label + "]", Func: fi.Key, Kind: "lemma", Tags: ax.Tags,
			traceLen: len(g.trace), pc: "true", goal: f, Src: ax.Src, Pos: short + "/contracts_verif.go"})
	}
	return g
}

func oblOK(o *Obligation) bool {
	if o.Kind == "cover" {
		return o.Status != "unsat"
	}
	return o.Status == "unsat"
}

// vf lock: regenerate obligations.lock and undecided.txt from the current tree (reference tree only).
func cmdLock(args []string) {
	fs := flag.NewFlagSet("lock", flag.ExitOnError)
	timeout := fs.Int("timeout", 25, "solver timeout (s)")
	only := fs.String("funcs", "", "re-lock only these functions (comma-separated keys or prefix*); other entries are kept")
	fs.Parse(args)
	p, err := loadProg(repoDir())
	if err != nil {
		fmt.Println("load error:", err)
		os.Exit(2)
	}
	loadPreludeSigs(preludeSig)
	sel := map[string]bool{}
	if *only != "" {
		for _, fi := range selectFuncs(p, *only) {
			sel[fi.Key] = true
		}
	}
	gens := generate(p, func(fi *FuncInfo) bool { return *only == "" || sel[fi.Key] || matchKey(*only, fi.Key) })
	s, _ := newSolver(*timeout, false)
	defer s.close()
	s.prelude, s.lean = fullPrelude(p), leanPrelude(p)
	// strategies of the previous lock are tried first; what it held and now times out under the load of a full run
	// gets a second attempt with twice the limit
	prev := map[string]string{}
	for _, l := range readLines(filepath.Join(verifDir, "obligations.lock")) {
		f := strings.Split(l, "\t")
		if len(f) >= 3 {
			prev[f[0]] = f[2]
		}
	}
	for _, g := range gens {
		for _, o := range g.obls {
			o.Hint = prev[o.Name]
		}
	}
	s.solveAll(gens, nil)
	{
		var jobs []retryJob
		for _, g := range gens {
			for _, o := range g.obls {
				if _, was := prev[o.Name]; was && !oblOK(o) && (o.Status == "timeout" || o.Status == "unknown") {
					jobs = append(jobs, retryJob{g, o})
				}
			}
		}
		retryAlone(jobs, *timeout*2, s)
	}
	findings := map[string]bool{}
	for _, f := range loadFindings() {
		if !f.Fixed {
			findings[f.Obligation] = true
		}
	}
	var lock, und []string
	for _, g := range gens {
		if g.unbound != "" {
			und = append(und, g.F.Key+"#unbound\t"+g.unbound)
			continue
		}
		for _, o := range g.obls {
			ps := strings.Join(propsOf(g.F, o), ",")
			if findings[o.Name] {
				continue
			}
			if oblOK(o) {
				// only obligations that discharge comfortably enter the lock
				if o.Kind != "cover" && o.Solver != "case-split" && o.TimeS > 12 {
					und = append(und, o.Name+"\tslow: "+fmt.Sprintf("%.1fs", o.TimeS))
					continue
				}
				lock = append(lock, o.Name+"\t"+ps+"\t"+strings.TrimSuffix(o.Solver, " (cached)"))
			} else {
				und = append(und, o.Name+"\t"+o.Status+" @"+o.Pos)
			}
		}
	}
	if *only != "" {
		// keep the entries of all other functions
		keep := func(l string) bool {
			name := strings.Split(l, "\t")[0]
			fn := name
			if i := strings.Index(name, "#"); i >= 0 {
				fn = name[:i]
			}
			return !sel[fn] && !matchKey(*only, fn)
		}
		for _, l := range readLines(filepath.Join(verifDir, "obligations.lock")) {
			if keep(l) {
				lock = append(lock, l)
			}
		}
		for _, l := range readLines(filepath.Join(verifDir, "undecided.txt")) {
			if keep(l) {
				und = append(und, l)
			}
		}
	}
	sort.Strings(lock)
	sort.Strings(und)
	os.WriteFile(filepath.Join(verifDir, "obligations.lock"), []byte("# obligations discharged on the reference tree: <name>\\t<properties>\n"+strings.Join(lock, "\n")+"\n"), 0o644)
	os.WriteFile(filepath.Join(verifDir, "undecided.txt"), []byte("# generated but neither discharged nor confirmed as a defect on the reference tree (not claimed)\n"+strings.Join(und, "\n")+"\n"), 0o644)
	writeNamesLock(p)
	fmt.Printf("lock: %d discharged, %d undecided, %d known findings\n", len(lock), len(und), len(findings))
}

type evidence struct {
	PropertyID  string                 `json:"property_id"`
	Tier        string                 `json:"tier"`
	Seed        int                    `json:"seed"`
	Level       string                 `json:"level"`
	Coverage    map[string]interface{} `json:"coverage"`
	Assumptions []string               `json:"assumptions"`
	WallS       float64                `json:"wall_s"`
	Violations  int                    `json:"violations"`
}

func cmdCheck(args []string) {
	fs := flag.NewFlagSet("check", flag.ExitOnError)
	tier := fs.String("tier", "quick", "quick|thorough")
	if len(args) < 1 {
		fmt.Println("usage: vf check <id> [--tier quick|thorough]")
		os.Exit(2)
	}
	id := args[0]
	fs.Parse(args[1:])
	if t := os.Getenv("VERIF_TIER"); t != "" && *tier == "quick" {
		*tier = t
	}
	seed := 0
	if s := os.Getenv("VERIF_SEED"); s != "" {
		seed, _ = strconv.Atoi(s)
	}
	t0 := time.Now()
	p, err := loadProg(repoDir())
	if err != nil {
		// the tree does not load: every locked obligation of the property is unbound
		fmt.Println("load error:", err)
		rp := writeReplay(id, "load-error", map[string]interface{}{"obligation": "load#unbound", "error": err.Error()})
		fmt.Printf("VIOLATION property=%s replay=%s no-failing-input-found\n", id, rp)
		os.Exit(1)
	}
	loadPreludeSigs(preludeSig)
	lock := loadLock()
	findings := loadFindings()
	undecided := loadUndecided()
	// which functions can carry obligations of this property
	want := func(fi *FuncInfo) bool {
		if fi.Short == "lemmas" && fi.Body == nil {
			if ps := p.Specs[pkgShort(fi.Pkg.Types)]; ps != nil {
				for _, ax := range ps.Axioms {
					if ax.Lemma && hasProp(ax.Tags, id) {
						return true
					}
				}
			}
			return false
		}
		if id == "C16" && ioReporting(fi) {
			return true
		}
		if id == "C18" {
			return true
		}
		if id == "C19" && decoderFuncs[fi.Key] {
			return true
		}
		return funcTags(fi)[id]
	}
	gens := generate(p, want)
	timeout := 15
	if *tier == "thorough" {
		timeout = 40
	}
	s, _ := newSolver(timeout, *tier == "thorough")
	defer s.close()
	s.prelude, s.lean = fullPrelude(p), leanPrelude(p)
	findingSet := map[string]*Finding{}
	for i := range findings {
		f := &findings[i]
		if !f.Fixed && f.Prop == id {
			findingSet[f.Obligation] = f
		}
	}
	anyFinding := map[string]bool{}
	for _, f := range findings {
		if !f.Fixed {
			anyFinding[f.Obligation] = true
		}
	}
	mine := func(g *FuncGen, o *Obligation) bool { return hasProp(propsOf(g.F, o), id) }
	byName := map[string]*Obligation{}
	genOf := map[string]*FuncGen{}
	for _, g := range gens {
		for _, o := range g.obls {
			o.Hint = lockHints[o.Name]
		}
	}
	// Obligations that share kind and text within a function differ only by an occurrence index (#k), which shifts
	// when a site is inserted or removed. They are therefore budgeted per base name: at most as many of them may
	// fail as are listed in undecided.txt / known-findings.txt for that base.
	genCount := map[string]int{}
	for _, g := range gens {
		for _, o := range g.obls {
			genCount[baseName(o.Name)]++
		}
	}
	refCount := map[string]int{}
	undCount := map[string]int{}
	for name := range lock {
		refCount[baseName(name)]++
	}
	for name := range undecided {
		refCount[baseName(name)]++
		undCount[baseName(name)]++
	}
	for name := range anyFinding {
		refCount[baseName(name)]++
		undCount[baseName(name)]++
	}
	// functions that have any obligation on the reference tree
	refFuncs := map[string]bool{}
	for name := range lock {
		refFuncs[name[:strings.Index(name, "#")]] = true
	}
	for name := range undecided {
		if i := strings.Index(name, "#"); i > 0 {
			refFuncs[name[:i]] = true
		}
	}
	// undecided sites of the reference tree that are no longer generated: renaming a variable or moving a statement
	// changes the text a site is named by, so a new failing site of the same kind in the same function takes the place
	// of a vanished undecided one (fkBudget), and a failing site whose text was undecided in another function on the
	// reference tree is code that moved (undLabels). Neither was claimed before; neither is a violation now.
	fkBudget := map[string]int{}
	undLabels := map[string]string{}
	kindOfName := func(name string) (string, string) {
		i := strings.Index(name, "#")
		if i < 0 {
			return name, ""
		}
		rest := name[i+1:]
		k := rest
		if j := strings.IndexAny(rest, "[#"); j >= 0 {
			k = rest[:j]
		}
		return name[:i], k
	}
	for name := range undecided {
		fn, k := kindOfName(name)
		if genCount[baseName(name)] == 0 {
			fkBudget[fn+"#"+k]++
		}
		if i := strings.Index(name, "#"); i >= 0 {
			undLabels[baseName(name)[i:]] = name
		}
	}
	// new obligations (no site of that base name on the reference tree) that fail without being violations:
	exempt := func(o *Obligation) string {
		if refCount[baseName(o.Name)] != 0 {
			return ""
		}
		if isSafety(o) || o.Kind == "ovf" || o.Kind == "conv" || o.Kind == "regexp" {
			fn, k := kindOfName(o.Name)
			if fkBudget[fn+"#"+k] > 0 {
				fkBudget[fn+"#"+k]--
				return fmt.Sprintf("%s takes the place of an undecided %s site of %s that is no longer generated (renamed or rewritten expression; not claimed)", o.Name, k, fn)
			}
			if i := strings.Index(o.Name, "#"); i >= 0 {
				if was, ok := undLabels[baseName(o.Name)[i:]]; ok {
					return fmt.Sprintf("%s: the same expression was undecided on the reference tree as %s (moved code; not claimed)", o.Name, was)
				}
			}
		}
		// a helper that did not exist on the reference tree, has no contract and is executed in place at every one of
		// its call sites: its statements are checked there, in the callers' context; checked on its own, with
		// arbitrary arguments, they say nothing about the program
		if isSafety(o) || o.Kind == "ovf" || o.Kind == "conv" {
			if fi := p.Funcs[o.Func]; fi != nil && fi.Spec == nil && !refFuncs[o.Func] && fi.Obj != nil && !fi.Obj.Exported() && p.InlinedAt[o.Func] > 0 && p.HavocAt[o.Func] == 0 {
				return fmt.Sprintf("%s is a new helper without contract; %s is checked at its %d inlined call site(s), not on its own", o.Func, o.Name, p.InlinedAt[o.Func])
			}
		}
		// a new arithmetic side condition (a counter that could only wrap after 2^63 steps) is undecided, not a
		// violation: machine arithmetic treated as mathematical is a listed assumption
		if o.Kind == "ovf" || o.Kind == "conv" {
			return fmt.Sprintf("new arithmetic side condition %s is not discharged (undecided, not claimed)", o.Name)
		}
		return ""
	}
	sameSites := func(name string) bool { b := baseName(name); return genCount[b] == refCount[b] }
	s.solveAll(gens, func(o *Obligation) bool {
		// undecided obligations are not run in the quick tier (they are not claimed), unless the sites changed
		if undecided[o.Name] && *tier == "quick" && sameSites(o.Name) {
			return false
		}
		return true
	})
	// a locked obligation that fails under parallel load is retried alone with a longer limit before it counts
	{
		var jobs []retryJob
		for _, g := range gens {
			for _, o := range g.obls {
				if o.Status == "" || oblOK(o) || !hasProp(propsOf(g.F, o), id) {
					continue
				}
				// everything that would be reported gets the second attempt: locked obligations and new ones alike
				if (undecided[o.Name] || anyFinding[o.Name]) && sameSites(o.Name) {
					continue
				}
				if _, isF := findingSet[o.Name]; isF {
					continue
				}
				jobs = append(jobs, retryJob{g, o})
			}
		}
		retryAlone(jobs, timeout*2, s)
	}
	var violations []map[string]interface{}
	shifted := map[string][]*Obligation{}
	nObl, nDis := 0, 0
	backend := map[string]int{}
	var samples []interface{}
	var notProved []string
	var known []string
	funcsUnder := map[string]bool{}
	notes := map[string]bool{}
	for _, g := range gens {
		if g.unbound != "" {
			// every locked obligation of this function is lost
			for name, ps := range lock {
				if strings.HasPrefix(name, g.F.Key+"#") && hasProp(ps, id) {
					violations = append(violations, map[string]interface{}{"obligation": g.F.Key + "#unbound", "reason": "function can no longer be lowered: " + g.unbound, "lost": name})
					break
				}
			}
			continue
		}
		for _, n := range g.notes {
			notes[n] = true
		}
		for _, o := range g.obls {
			if !mine(g, o) {
				continue
			}
			byName[o.Name] = o
			genOf[o.Name] = g
			if g.F.Spec != nil {
				funcsUnder[g.F.Key] = true
			}
			if f, ok := findingSet[o.Name]; ok {
				if !oblOK(o) {
					known = append(known, fmt.Sprintf("KNOWN-FINDING: property=%s %s: %s", id, o.Name, f.What))
				} else {
					fmt.Printf("note: finding %s no longer reproduces (obligation discharged); update known-findings.txt\n", o.Name)
				}
				continue
			}
			if anyFinding[o.Name] && sameSites(o.Name) {
				continue // listed under another property
			}
			if undecided[o.Name] && sameSites(o.Name) {
				notProved = append(notProved, o.Name)
				continue
			}
			_, locked := lock[o.Name]
			if !sameSites(o.Name) {
				// sites of this base changed: budget below
				shifted[baseName(o.Name)] = append(shifted[baseName(o.Name)], o)
				continue
			}
			nObl++
			if oblOK(o) {
				nDis++
				backend[strings.TrimSuffix(o.Solver, " (cached)")]++
				if len(samples) < 6 {
					samples = append(samples, map[string]interface{}{"obligation": o.Name, "clause": o.Src, "at": o.Pos, "solver": o.Solver, "seconds": o.TimeS})
				}
				continue
			}
			reason := "locked obligation no longer discharges"
			if !locked {
				reason = "new obligation (not in obligations.lock) does not discharge"
				// a new arithmetic side condition (a counter that could only wrap after 2^63 steps) is undecided, not a
				// violation: machine arithmetic treated as mathematical is a listed assumption
				if why := exempt(o); why != "" {
					nObl--
					notProved = append(notProved, o.Name)
					fmt.Println("note: " + why)
					continue
				}
			}
			violations = append(violations, map[string]interface{}{"obligation": o.Name, "reason": reason})
		}
	}
	// bases whose number of sites changed: as many failures as were undecided before are tolerated
	var sbases []string
	for b := range shifted {
		sbases = append(sbases, b)
	}
	sort.Strings(sbases)
	for _, b := range sbases {
		var failing []*Obligation
		for _, o := range shifted[b] {
			if oblOK(o) {
				nObl++
				nDis++
				backend[strings.TrimSuffix(o.Solver, " (cached)")]++
			} else {
				failing = append(failing, o)
			}
		}
		budget := undCount[b]
		for i, o := range failing {
			if i < budget {
				notProved = append(notProved, o.Name)
				continue
			}
			if why := exempt(o); why != "" {
				notProved = append(notProved, o.Name)
				fmt.Println("note: " + why)
				continue
			}
			nObl++
			violations = append(violations, map[string]interface{}{"obligation": o.Name, "reason": fmt.Sprintf("%d of %d obligations %s fail, %d were undecided on the reference tree", len(failing), len(shifted[b]), b, budget)})
		}
	}
	// locked obligations of this property that were not generated at all
	var lockedNames []string
	for name, ps := range lock {
		if hasProp(ps, id) {
			lockedNames = append(lockedNames, name)
		}
	}
	sort.Strings(lockedNames)
	for _, name := range lockedNames {
		if _, ok := byName[name]; !ok {
			if genCount[baseName(name)] > 0 && !sameSites(name) {
				continue // the sites of this base were renumbered; handled by the per-base budget
			}
			fn := name[:strings.Index(name, "#")]
			skip := false
			for _, v := range violations {
				if v["obligation"] == fn+"#unbound" {
					skip = true
				}
			}
			// a generated safety obligation names a code site: when the site is gone there is nothing left to prove
			rest := name[strings.Index(name, "#")+1:]
			kind := rest
			if i := strings.IndexAny(rest, "[#"); i >= 0 {
				kind = rest[:i]
			}
			if safetyKinds[kind] || kind == "ovf" || kind == "conv" {
				if _, stillThere := p.Funcs[fn]; stillThere {
					skip = true
				}
			}
			if !skip {
				violations = append(violations, map[string]interface{}{"obligation": name, "reason": "locked obligation is no longer generated (function or clause gone, or renamed)", "missing": true})
			}
		}
	}
	// vacuity guard
	nStandins := 0
	for _, sd := range loadStandins() {
		if sd.Prop == id && (sd.Tier != "thorough" || *tier == "thorough") {
			nStandins++
		}
	}
	if nObl == 0 && len(known) == 0 && nStandins == 0 {
		violations = append(violations, map[string]interface{}{"obligation": id + "#vacuity", "reason": "no obligation generated for this property"})
	}
	for _, k := range known {
		fmt.Println(k)
	}
	// replays
	for _, v := range violations {
		name := v["obligation"].(string)
		rec := map[string]interface{}{"property": id, "obligation": name, "reason": v["reason"]}
		foundInput := false
		if o, ok := byName[name]; ok {
			rec["function"] = o.Func
			rec["at"] = o.Pos
			rec["clause"] = o.Src
			rec["status"] = o.Status
			rec["solver_outputs"] = o.Outputs
			rec["candidate_model_lean_prelude"] = o.Model
			g := genOf[name]
			rec["query_sha"] = hashText(g.vcText(o, s.prelude))
			if rr := runReplayHarness(p, o, id); rr != nil {
				rec["replay"] = rr
				if fi, ok := rr["failing_input_found"].(bool); ok && fi {
					foundInput = true
				}
			}
		}
		rp := writeReplay(id, name, rec)
		if foundInput {
			fmt.Printf("VIOLATION property=%s replay=%s\n", id, rp)
		} else {
			fmt.Printf("VIOLATION property=%s replay=%s no-failing-input-found\n", id, rp)
		}
	}
	standinTier = *tier
	// bounded stand-ins registered for this property (real functions, stated bound, never counted as proved)
	var standinResults []map[string]interface{}
	for _, sd := range loadStandins() {
		if sd.Prop != id || (sd.Tier == "thorough" && *tier != "thorough") {
			continue
		}
		r := runStandin(p, sd)
		standinResults = append(standinResults, r)
		if ok, _ := r["passed"].(bool); !ok {
			rec := map[string]interface{}{"property": id, "obligation": "bounded[" + sd.Test + "]", "reason": "bounded stand-in fails on the real functions", "replay": r}
			rp := writeReplay(id, "bounded_"+sd.Test, rec)
			if _, has := r["failing_inputs"]; has {
				fmt.Printf("VIOLATION property=%s replay=%s\n", id, rp)
			} else {
				fmt.Printf("VIOLATION property=%s replay=%s no-failing-input-found\n", id, rp)
			}
			violations = append(violations, rec)
		}
	}
	// thorough tier: the must-fail corpus restricted to the functions of this property (vacuity guard)
	var mustFail map[string]interface{}
	if *tier == "thorough" && os.Getenv("VF_NO_SELFTEST") == "" {
		var fns []string
		for k := range funcsUnder {
			fns = append(fns, k)
		}
		sort.Strings(fns)
		cmd := exec.Command(filepath.Join(verifDir, "selftest", "run.sh"))
		cmd.Env = append(os.Environ(), "MUTANT_FUNCS="+strings.Join(fns, ","))
		out, _ := cmd.CombinedOutput()
		killed, survived := 0, []string{}
		for _, l := range strings.Split(string(out), "\n") {
			if strings.HasPrefix(l, "killed") {
				killed++
			} else if strings.HasPrefix(l, "SURVIVED") || strings.HasPrefix(l, "MUTANT-") {
				survived = append(survived, l)
			}
		}
		mustFail = map[string]interface{}{"mutants_killed": killed, "not_killed": survived, "corpus": "selftest/mutants.tsv restricted to the functions under contract of this property"}
		for _, sline := range survived {
			fmt.Println("SELFTEST-SURVIVOR (check machinery, not the repository): " + sline)
		}
	}
	wall := time.Since(t0).Seconds()
	level := "proof"
	var fu []string
	for k := range funcsUnder {
		fu = append(fu, k)
	}
	sort.Strings(fu)
	// the command closures are entry points: cobra calls them, nothing under contract does, so what they require of the
	// package-level client is not checked at any call site
	for _, g := range gens {
		if g.F == nil || g.F.Spec == nil || !strings.Contains(g.F.Key, "Cmd.") || !funcsUnder[g.F.Key] {
			continue
		}
		for _, r := range g.F.Spec.Requires {
			notes[fmt.Sprintf("entry precondition of %s (assumed: describes what init() in cmd/root.go loaded; init() is swept for safety only, its postcondition is not verified): %s", g.F.Key, r.Src)] = true
		}
	}
	var ns []string
	for k := range notes {
		ns = append(ns, k)
	}
	sort.Strings(ns)
	sort.Strings(notProved)
	cov := map[string]interface{}{
		"obligations":              nObl,
		"discharged":               nDis,
		"checker_cmd":              fmt.Sprintf("bin/vf check %s --tier %s", id, *tier),
		"trusted_base":             trustedBase(),
		"functions_under_contract": fu,
		"by_backend":               backend,
		"solver_time_s":            s.timeS,
		"samples":                  samples,
		"known_findings":           known,
		"not_proved":               notProved,
		"bounded_standins":         standinResults,
		"must_fail_corpus":         mustFail,
		"explanation":              "obligations are generated from the current /repo sources (go/ast + go/types, contracts in */contracts_verif.go) and discharged by SMT solvers; 'obligations' counts those claimed (in obligations.lock or new); 'not_proved' lists generated obligations that are not claimed (undecided.txt)",
	}
	standinCases := 0
	for _, r := range standinResults {
		if c, ok := r["cases"].(int); ok {
			standinCases += c
		}
	}
	if standinCases > 0 {
		cov["evaluations"] = standinCases
		cov["distinct_nontrivial"] = standinCases
		cov["rule"] = "bounded stand-ins only: each case is a distinct (repository state, argument list) combination enumerated by the harness; each runs the real function or command closure and compares the whole observable state with an independent oracle"
	}
	if nObl == 0 || nDis == 0 || manifestCategory(id) == "other" {
		level = "other"
		cov["level_reason"] = "the end-to-end statement of this property is decided by the bounded stand-ins; the discharged obligations cover the functions under contract listed here, not the whole statement"
		if len(samples) == 0 {
			for _, r := range standinResults {
				cov["samples"] = append(samples, map[string]interface{}{"standin": r["test"], "bound": r["bound"], "cases": r["cases"]})
				break
			}
		}
	}
	ev := evidence{PropertyID: id, Tier: *tier, Seed: seed, Level: level, Coverage: cov, Assumptions: append(trustedBase(), ns...), WallS: wall, Violations: len(violations)}
	evDir := filepath.Join(verifDir, "evidence")
	if d := os.Getenv("VF_EVIDENCE_DIR"); d != "" {
		evDir = d // experiments on scratch trees must not overwrite the evidence of the real tree
	}
	os.MkdirAll(evDir, 0o755)
	b, _ := json.MarshalIndent(ev, "", " ")
	os.WriteFile(filepath.Join(evDir, id+".json"), b, 0o644)
	fmt.Printf("property=%s tier=%s obligations=%d discharged=%d known_findings=%d not_proved=%d violations=%d wall=%.1fs\n", id, *tier, nObl, nDis, len(known), len(notProved), len(violations), wall)
	if len(violations) > 0 {
		s.close() // os.Exit skips the deferred call
		os.Exit(1)
	}
}

func trustedBase() []string {
	return []string{
		"vf itself: loader, lowering of the Go AST, VC generation (mitigated by the must-fail corpus in /verif/selftest)",
		"SMT solvers z3 5.1.0, z3 4.8.12, cvc5 1.0 (quick: first unsat wins; thorough: all that answer must agree)",
		"integers are mathematical; every + - * carries an ovf obligation, narrowing conversions a conv obligation",
		"A-MEM: slices of non-byte elements have fewer than 2^31 elements; byte strings are shorter than 2^47",
		"strings/[]byte are an abstract sort with an order embedding (rank) and the axioms in vf/theory/prelude_ax.smt2",
		"Go memory safety (typed heap): references stored in allocated objects are nil or allocated",
		"library functions follow the models in vf/lib.go; unmodelled ones: results unconstrained, assumed panic-free, repository heap untouched",
		"[]byte values are treated as immutable values (no write through an alias); a zero-length []byte is identified with nil",
		"defer x.Close() is dropped",
		"single sequential process; nobody else modifies the repository during a command",
		"paths are clean (Goit builds every path by filepath.Join from the repository root): joining a valid component is injective and makes the path longer",
		"os.Getwd, filepath.Abs and filepath.Rel are deterministic within one run (the process never changes directory)",
		"failure model: creations, writes, mkdir, remove, rename may fail at any time, a failed write leaves that file with unknown content; os.ReadFile, os.Open and os.ReadDir of a path that is there may fail too (a read fault): the reporting obligations (iofail) cover such runs, every other obligation is about runs without a read fault; errors in the middle of a stream (Scanner, io.ReadAll, zlib), of Stat and of Close are not modelled",
	}
}

func writeReplay(id, name string, rec map[string]interface{}) string {
	dir := filepath.Join(verifDir, "replays", id)
	if d := os.Getenv("VF_EVIDENCE_DIR"); d != "" {
		dir = filepath.Join(d, "replays", id)
	}
	os.MkdirAll(dir, 0o755)
	path := filepath.Join(dir, sanitize(name)+".json")
	b, _ := json.MarshalIndent(rec, "", " ")
	os.WriteFile(path, b, 0o644)
	return path
}

// runReplayHarness: bounded search for a failing input on the real function (harness per function family).
func runReplayHarness(p *Prog, o *Obligation, id string) map[string]interface{} {
	return replaySearch(p, o, id)
}

func cmdReplay(args []string) {
	if len(args) < 1 {
		fmt.Println("usage: vf replay <path>")
		os.Exit(2)
	}
	b, err := os.ReadFile(args[0])
	if err != nil {
		fmt.Println(err)
		os.Exit(2)
	}
	fmt.Println(string(b))
}

// baseName strips the occurrence index: "f#nil[x.y]#2" -> "f#nil[x.y]"
func baseName(name string) string {
	i := strings.LastIndex(name, "#")
	if i > 0 && i > strings.Index(name, "#") {
		if _, err := strconv.Atoi(name[i+1:]); err == nil {
			return name[:i]
		}
	}
	return name
}

// manifestCategory: the level category claimed for a property in MANIFEST.json ("" when not registered)
func manifestCategory(id string) string {
	b, err := os.ReadFile(filepath.Join(verifDir, "MANIFEST.json"))
	if err != nil {
		return ""
	}
	var m struct {
		Checks []struct {
			PropertyID   string `json:"property_id"`
			LevelClaimed struct {
				Category string `json:"category"`
			} `json:"level_claimed"`
		} `json:"checks"`
	}
	if json.Unmarshal(b, &m) != nil {
		return ""
	}
	for _, c := range m.Checks {
		if c.PropertyID == id {
			return c.LevelClaimed.Category
		}
	}
	return ""
}

type retryJob struct {
	g *FuncGen
	o *Obligation
}

// retryAlone: obligations that failed under the load of the parallel run get one more attempt with a longer limit,
// at most four at a time (each attempt races three solver processes).
func retryAlone(jobs []retryJob, timeoutS int, s *Solver) {
	var wg sync.WaitGroup
	var mu sync.Mutex
	sem := make(chan struct{}, 4)
	for _, j := range jobs {
		wg.Add(1)
		sem <- struct{}{}
		go func(j retryJob) {
			defer wg.Done()
			defer func() { <-sem }()
			rs, _ := newSolver(timeoutS, false)
			rs.noSplit = j.o.Hint != "case-split"
			rs.prelude, rs.lean = s.prelude, s.lean
			rs.cacheDir = ""
			first := j.o.Status
			rs.solve(j.o, j.g)
			rs.close()
			mu.Lock()
			s.timeS += rs.timeS
			if oblOK(j.o) {
				fmt.Printf("note: %s needed a retry with twice the limit (first attempt: %s)\n", j.o.Name, first)
			}
			mu.Unlock()
		}(j)
	}
	wg.Wait()
}
