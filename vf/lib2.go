package main

import (
	"fmt"
	"go/ast"
	"go/constant"
	"go/types"
	"strings"
)

func init() {
	more := map[string]libModel{
		"fmt.Sprintf":    libSprintf,
		"fmt.Sprint":     libSprint,
		"strings.Repeat": libRepeat,
		"time.Now": func(g *FuncGen, c *ast.CallExpr, callee *types.Func, st *State) []Val {
			return []Val{g.freshVal(st, "now", callee.Type().(*types.Signature).Results().At(0).Type())}
		},
		"(time.Time).Unix":                       libTimeUnix,
		"(time.Time).Zone":                       libTimeZone,
		"time.FixedZone":                         libFixedZone,
		"time.Unix":                              libTimeFromUnix,
		"(time.Time).In":                         libTimeIn,
		"os.IsNotExist":                          libIsNotExist,
		"errors.Is":                              libErrorsIs,
		"os.Stat":                                libStat,
		"os.Lstat":                               libStat,
		"encoding/binary.Write":                  libReadOnly,
		"(*github.com/fatih/color.Color).Printf": libNoop,
		"github.com/fatih/color.Green":           libNoop,
	}
	more["(*regexp.Regexp).MatchString"] = libReMatch
	more["(*regexp.Regexp).Match"] = libReMatch
	more["regexp.MustCompile"] = libMustCompile
	more["strings.SplitN"] = libSplitN
	more["strconv.ParseInt"] = libParseInt
	more["strings.Split"] = libSplit
	more["strconv.Atoi"] = libAtoi
	more["strings.Contains"] = libContains
	more["strings.ToLower"] = func(g *FuncGen, c *ast.CallExpr, callee *types.Func, st *State) []Val {
		a := g.ev(c.Args[0], st)
		return []Val{{fmt.Sprintf("(toLower %s)", a.T), types.Typ[types.String], "Bytes"}}
	}
	more["strings.Join"] = func(g *FuncGen, c *ast.CallExpr, callee *types.Func, st *State) []Val {
		a := g.ev(c.Args[0], st)
		b := g.ev(c.Args[1], st)
		return []Val{{fmt.Sprintf("(joinSeq %s %s)", a.T, b.T), types.Typ[types.String], "Bytes"}}
	}
	more["strings.LastIndex"] = libIndexOf
	more["strings.Index"] = libIndexOf
	for k, v := range more {
		libModels[k] = v
	}
}

func libReadOnly(g *FuncGen, c *ast.CallExpr, callee *types.Func, st *State) []Val {
	// arguments are only read (even when passed by address)
	for _, a := range c.Args {
		if u, ok := unparen(a).(*ast.UnaryExpr); ok && u.Op.String() == "&" {
			g.ev(u.X, st)
			continue
		}
		g.evMulti(a, st)
	}
	return g.libResults(callee, st)
}

// libResults: fresh results with the standard-library convention "nil error => non-nil pointer/interface result".
func (g *FuncGen) libResults(callee *types.Func, st *State) []Val {
	sig := callee.Type().(*types.Signature)
	var res []Val
	for i := 0; i < sig.Results().Len(); i++ {
		res = append(res, g.freshVal(st, "lib_"+sanitize(callee.Name()), sig.Results().At(i).Type()))
	}
	n := len(res)
	if n >= 2 && isErrorType(res[n-1].Ty) {
		for _, r := range res[:n-1] {
			if r.Ty != nil && (isInterface(r.Ty) || isPtr(r.Ty)) && !isErrorType(r.Ty) {
				g.assume(st, fmt.Sprintf("(=> (= %s 0) (not (= %s 0)))", res[n-1].T, r.T))
			}
		}
	}
	return res
}

func isPtr(t types.Type) bool {
	_, ok := types.Unalias(t).Underlying().(*types.Pointer)
	return ok
}

// stringOf renders an argument of a fmt verb as Bytes.
func (g *FuncGen) stringOf(st *State, a ast.Expr, v Val, verb string) string {
	switch v.S {
	case "Bytes":
		// named byte slices with a String method (sha.SHA1) print through it
		if m := g.stringMethod(v.Ty); m != nil && verb != "x" {
			if fi := g.P.ByObj[m]; fi != nil {
				r := g.applyOrInline(a, fi, v, st)
				return r.T
			}
		}
		return v.T
	case "Int":
		if m := g.stringMethod(v.Ty); m != nil {
			if fi := g.P.ByObj[m]; fi != nil {
				return g.applyOrInline(a, fi, v, st).T
			}
		}
		if b, ok := v.Ty.Underlying().(*types.Basic); ok && b.Info()&types.IsInteger != 0 {
			return fmt.Sprintf("(fmtd %s 0)", v.T)
		}
		return fmt.Sprintf("(show %s)", v.T)
	}
	if m := g.stringMethod(v.Ty); m != nil {
		if fi := g.P.ByObj[m]; fi != nil {
			return g.applyOrInline(a, fi, v, st).T
		}
	}
	// other sorts: opaque rendering
	r := g.fresh("shown", "Bytes")
	return r
}

func (g *FuncGen) applyOrInline(a ast.Expr, fi *FuncInfo, recv Val, st *State) Val {
	if fi.Spec == nil {
		if r, ok := g.tryInline(fi, &recv, nil, st); ok && len(r) == 1 {
			return r[0]
		}
	}
	// pointer receivers on values / value receivers on pointers
	rv := recv
	if fi.Sig.Recv() != nil {
		_, wantPtr := types.Unalias(fi.Sig.Recv().Type()).Underlying().(*types.Pointer)
		_, havePtr := types.Unalias(rv.Ty).Underlying().(*types.Pointer)
		if !wantPtr && havePtr {
			rv = g.derefStruct(st, rv, a.Pos())
		}
	}
	r := g.applyContract(a.Pos(), fi, &rv, nil, st)
	return r[0]
}

func (g *FuncGen) stringMethod(t types.Type) *types.Func {
	if t == nil {
		return nil
	}
	for _, ty := range []types.Type{t, types.NewPointer(t)} {
		ms := types.NewMethodSet(ty)
		for i := 0; i < ms.Len(); i++ {
			f := ms.At(i).Obj().(*types.Func)
			if f.Name() == "String" && isRepoPkg(f.Pkg()) {
				sig := f.Type().(*types.Signature)
				if sig.Params().Len() == 0 && sig.Results().Len() == 1 {
					return f
				}
			}
		}
	}
	return nil
}

func libSprintf(g *FuncGen, c *ast.CallExpr, callee *types.Func, st *State) []Val {
	strT := types.Typ[types.String]
	tv, ok := g.info.Types[c.Args[0]]
	if !ok || tv.Value == nil || tv.Value.Kind() != constant.String {
		g.fail("fmt.Sprintf with a non-constant format")
	}
	format := constant.StringVal(tv.Value)
	var pieces []string
	argi := 1
	lit := ""
	flush := func() {
		if lit != "" {
			pieces = append(pieces, g.strLit(lit))
			lit = ""
		}
	}
	for i := 0; i < len(format); i++ {
		ch := format[i]
		if ch != '%' {
			lit += string(ch)
			continue
		}
		j := i + 1
		flags := ""
		for j < len(format) && strings.ContainsRune("+-0 #", rune(format[j])) {
			flags += string(format[j])
			j++
		}
		width := 0
		for j < len(format) && format[j] >= '0' && format[j] <= '9' {
			width = width*10 + int(format[j]-'0')
			j++
		}
		if j >= len(format) {
			g.fail("bad format %q", format)
		}
		verb := format[j]
		i = j
		if verb == '%' {
			lit += "%"
			continue
		}
		if argi >= len(c.Args) {
			g.fail("format %q: missing argument", format)
		}
		flush()
		a := c.Args[argi]
		argi++
		v := g.ev(a, st)
		switch verb {
		case 'd':
			if v.S != "Int" {
				g.fail("%%d of %s", v.S)
			}
			switch {
			case strings.Contains(flags, "+"):
				pieces = append(pieces, fmt.Sprintf("(fmtdp %s %d)", v.T, width))
			case strings.Contains(flags, "0"):
				pieces = append(pieces, fmt.Sprintf("(fmtd %s %d)", v.T, width))
			case width == 0:
				pieces = append(pieces, fmt.Sprintf("(fmtd %s 0)", v.T))
			default:
				pieces = append(pieces, g.fresh("padded", "Bytes"))
			}
		case 's', 'v', 'w':
			if width != 0 || strings.Contains(flags, "-") {
				// padded strings (status output only): opaque
				g.stringOf(st, a, v, string(verb))
				pieces = append(pieces, g.fresh("padded", "Bytes"))
			} else {
				pieces = append(pieces, g.stringOf(st, a, v, string(verb)))
			}
		case 'x':
			if v.S == "Bytes" {
				pieces = append(pieces, fmt.Sprintf("(hex %s)", v.T))
			} else {
				pieces = append(pieces, g.fresh("hexnum", "Bytes"))
			}
		default:
			pieces = append(pieces, g.fresh("fmt", "Bytes"))
		}
	}
	flush()
	for argi < len(c.Args) {
		g.ev(c.Args[argi], st)
		argi++
	}
	if len(pieces) == 0 {
		return []Val{{"bempty", strT, "Bytes"}}
	}
	t := pieces[len(pieces)-1]
	for i := len(pieces) - 2; i >= 0; i-- {
		t = fmt.Sprintf("(bcat %s %s)", pieces[i], t)
	}
	return []Val{{t, strT, "Bytes"}}
}

func libSprint(g *FuncGen, c *ast.CallExpr, callee *types.Func, st *State) []Val {
	strT := types.Typ[types.String]
	if len(c.Args) != 1 {
		for _, a := range c.Args {
			g.ev(a, st)
		}
		return []Val{g.freshVal(st, "sprint", strT)}
	}
	v := g.ev(c.Args[0], st)
	return []Val{{g.stringOf(st, c.Args[0], v, "v"), strT, "Bytes"}}
}

func libRepeat(g *FuncGen, c *ast.CallExpr, callee *types.Func, st *State) []Val {
	strT := types.Typ[types.String]
	a, ok1 := g.info.Types[c.Args[0]]
	b, ok2 := g.info.Types[c.Args[1]]
	if ok1 && ok2 && a.Value != nil && b.Value != nil {
		n, _ := constant.Int64Val(b.Value)
		if n >= 0 && n < 4096 {
			return []Val{{g.strLit(strings.Repeat(constant.StringVal(a.Value), int(n))), strT, "Bytes"}}
		}
	}
	g.ev(c.Args[0], st)
	g.ev(c.Args[1], st)
	return []Val{g.freshVal(st, "repeat", strT)}
}

func recvOf(g *FuncGen, c *ast.CallExpr, st *State) Val {
	sel := unparen(c.Fun).(*ast.SelectorExpr)
	return g.ev(sel.X, st)
}

func libTimeUnix(g *FuncGen, c *ast.CallExpr, callee *types.Func, st *State) []Val {
	t := recvOf(g, c, st)
	return []Val{{fmt.Sprintf("(time_unix %s)", t.T), types.Typ[types.Int64], "Int"}}
}

func libTimeZone(g *FuncGen, c *ast.CallExpr, callee *types.Func, st *State) []Val {
	t := recvOf(g, c, st)
	name := g.freshVal(st, "zonename", types.Typ[types.String])
	off := fmt.Sprintf("(time_off %s)", t.T)
	return []Val{name, {off, types.Typ[types.Int], "Int"}}
}

func libFixedZone(g *FuncGen, c *ast.CallExpr, callee *types.Func, st *State) []Val {
	g.ev(c.Args[0], st)
	off := g.ev(c.Args[1], st)
	loc := g.freshVal(st, "loc", callee.Type().(*types.Signature).Results().At(0).Type())
	g.declFun("loc_off", []string{"Int"}, "Int")
	g.assume(st, fmt.Sprintf("(and (not (= %s 0)) (= (loc_off %s) %s))", loc.T, loc.T, off.T))
	return []Val{loc}
}

func libTimeFromUnix(g *FuncGen, c *ast.CallExpr, callee *types.Func, st *State) []Val {
	sec := g.ev(c.Args[0], st)
	g.ev(c.Args[1], st)
	// time.Unix yields the instant in the local zone: offset unconstrained until In() is applied
	off := g.fresh("localoff", "Int")
	ty := callee.Type().(*types.Signature).Results().At(0).Type()
	return []Val{{fmt.Sprintf("(mk_time %s %s)", sec.T, off), ty, "Time"}}
}

func libTimeIn(g *FuncGen, c *ast.CallExpr, callee *types.Func, st *State) []Val {
	t := recvOf(g, c, st)
	loc := g.ev(c.Args[0], st)
	g.declFun("loc_off", []string{"Int"}, "Int")
	src := g.exprText(c)
	g.oblige(st, "nil", src, nil, fmt.Sprintf("(not (= %s 0))", loc.T), c.Pos(), src)
	return []Val{{fmt.Sprintf("(mk_time (time_unix %s) (loc_off %s))", t.T, loc.T), t.Ty, "Time"}}
}

// errors.Is(err, syscall.ENOTDIR): a component of the path is not a directory (then the path itself does not exist)
func libErrorsIs(g *FuncGen, c *ast.CallExpr, callee *types.Func, st *State) []Val {
	e := g.ev(c.Args[0], st)
	if g.exprText(c.Args[1]) == "syscall.ENOTDIR" {
		return []Val{{fmt.Sprintf("(isNotDirErr %s)", e.T), types.Typ[types.Bool], "Bool"}}
	}
	g.ev(c.Args[1], st)
	g.libNote("errors.Is with a target other than syscall.ENOTDIR: result unconstrained")
	return []Val{g.freshVal(st, "errorsIs", types.Typ[types.Bool])}
}

func libIsNotExist(g *FuncGen, c *ast.CallExpr, callee *types.Func, st *State) []Val {
	e := g.ev(c.Args[0], st)
	return []Val{{fmt.Sprintf("(isNotExist %s)", e.T), types.Typ[types.Bool], "Bool"}}
}

// os.Stat: the FileInfo is non-nil exactly when the error is nil. The error may be a not-exist error or any
// other error (ENOTDIR when a path component is a regular file, EACCES, ...): only the former satisfies
// os.IsNotExist. This is what exposes nil dereferences of the FileInfo after "if os.IsNotExist(err)".
func libStat(g *FuncGen, c *ast.CallExpr, callee *types.Func, st *State) []Val {
	g.ev(c.Args[0], st)
	sig := callee.Type().(*types.Signature)
	info := g.freshVal(st, "fileinfo", sig.Results().At(0).Type())
	err := g.freshVal(st, "staterr", sig.Results().At(1).Type())
	g.assume(st, fmt.Sprintf("(= (= %s 0) (not (= %s 0)))", err.T, info.T))
	return []Val{info, err}
}

// Regular expressions. A match against a package-level constant regexp is an uninterpreted predicate of the
// subject, constrained by the characterisations written in the contract file ("//@ regexp name: ..."; assumed,
// validated against the real regexp by /verif/replay/regexps_test). A regexp compiled from a non-constant
// pattern carries the obligation that the pattern is valid, which nothing can establish for user text.
func libReMatch(g *FuncGen, c *ast.CallExpr, callee *types.Func, st *State) []Val {
	sel := unparen(c.Fun).(*ast.SelectorExpr)
	subj := g.ev(c.Args[0], st)
	boolT := types.Typ[types.Bool]
	if id, ok := unparen(sel.X).(*ast.Ident); ok {
		if v, ok := g.info.ObjectOf(id).(*types.Var); ok && v.Pkg() != nil && v.Parent() == v.Pkg().Scope() && isRepoPkg(v.Pkg()) {
			fn := "reMatch_" + pkgShort(v.Pkg()) + "_" + v.Name()
			g.declFun(fn, []string{"Bytes"}, "Bool")
			m := Val{fmt.Sprintf("(%s %s)", fn, subj.T), boolT, "Bool"}
			if ps := g.P.Specs[pkgShort(v.Pkg())]; ps != nil {
				for _, e := range ps.Regexps[v.Name()] {
					env := &CEnv{g: g, pkg: g.P.Pkgs[pkgShort(v.Pkg())], st: st, old: st, names: map[string]Val{"s": {subj.T, types.Typ[types.String], "Bytes"}, "$match": m}}
					g.assume(st, env.evalBool(e))
				}
				if len(ps.Regexps[v.Name()]) > 0 {
					g.libNote("regexp " + pkgShort(v.Pkg()) + "." + v.Name() + ": characterisation from the contract file (assumed; validated by bounded enumeration)")
				}
			}
			return []Val{m}
		}
	}
	rv := g.ev(sel.X, st)
	g.oblige(st, "nil", g.exprText(sel.X), nil, fmt.Sprintf("(not (= %s 0))", rv.T), c.Pos(), g.exprText(c.Fun))
	// a regexp compiled at run time: the match depends on the pattern text only
	return []Val{{fmt.Sprintf("(reMatch (rePattern %s) %s)", rv.T, subj.T), boolT, "Bool"}}
}

func libMustCompile(g *FuncGen, c *ast.CallExpr, callee *types.Func, st *State) []Val {
	tv, ok := g.info.Types[c.Args[0]]
	pat := ""
	if !ok || tv.Value == nil {
		// pattern built at run time: MustCompile panics unless it is a valid expression
		p := g.ev(c.Args[0], st)
		pat = p.T
		src := g.exprText(c)
		g.oblige(st, "regexp", src, nil, fmt.Sprintf("(validRegexp %s)", p.T), c.Pos(), src)
	}
	r := g.freshVal(st, "re", callee.Type().(*types.Signature).Results().At(0).Type())
	g.assume(st, fmt.Sprintf("(not (= %s 0))", r.T))
	if pat != "" {
		g.assume(st, fmt.Sprintf("(= (rePattern %s) %s)", r.T, pat))
	}
	return []Val{r}
}

func libContains(g *FuncGen, c *ast.CallExpr, callee *types.Func, st *State) []Val {
	a := g.ev(c.Args[0], st)
	b := g.ev(c.Args[1], st)
	return []Val{{fmt.Sprintf("(contains %s %s)", a.T, b.T), types.Typ[types.Bool], "Bool"}}
}

// strings.SplitN(s, sep, 2) with a constant non-empty separator: split at the first occurrence.
func libSplitN(g *FuncGen, c *ast.CallExpr, callee *types.Func, st *State) []Val {
	s := g.ev(c.Args[0], st)
	sep := g.ev(c.Args[1], st)
	nv, ok := g.info.Types[c.Args[2]]
	ty := callee.Type().(*types.Signature).Results().At(0).Type()
	septv, ok2 := g.info.Types[c.Args[1]]
	if !ok || nv.Value == nil || !ok2 || septv.Value == nil || constant.StringVal(septv.Value) == "" {
		g.ev(c.Args[2], st)
		return []Val{g.freshVal(st, "splitn", ty)}
	}
	n, _ := constant.Int64Val(nv.Value)
	r := g.freshVal(st, "splitn", ty)
	switch n {
	case 2:
		g.assume(st, fmt.Sprintf("(ite (contains %s %s) (and (= (slen %s) 2) (= (select (selems %s) 0) (splitHead %s %s)) (= (select (selems %s) 1) (splitTail %s %s))) (and (= (slen %s) 1) (= (select (selems %s) 0) %s)))",
			s.T, sep.T, r.T, r.T, s.T, sep.T, r.T, s.T, sep.T, r.T, r.T, s.T))
	case 3:
		t1 := fmt.Sprintf("(splitTail %s %s)", s.T, sep.T)
		g.assume(st, fmt.Sprintf("(ite (contains %s %s) (ite (contains %s %s) (and (= (slen %s) 3) (= (select (selems %s) 0) (splitHead %s %s)) (= (select (selems %s) 1) (splitHead %s %s)) (= (select (selems %s) 2) (splitTail %s %s))) (and (= (slen %s) 2) (= (select (selems %s) 0) (splitHead %s %s)) (= (select (selems %s) 1) %s))) (and (= (slen %s) 1) (= (select (selems %s) 0) %s)))",
			s.T, sep.T, t1, sep.T,
			r.T, r.T, s.T, sep.T, r.T, t1, sep.T, r.T, t1, sep.T,
			r.T, r.T, s.T, sep.T, r.T, t1,
			r.T, r.T, s.T))
	default:
		g.assume(st, fmt.Sprintf("(>= (slen %s) 1)", r.T))
	}
	return []Val{r}
}

func libSplit(g *FuncGen, c *ast.CallExpr, callee *types.Func, st *State) []Val {
	s := g.ev(c.Args[0], st)
	sep := g.ev(c.Args[1], st)
	ty := callee.Type().(*types.Signature).Results().At(0).Type()
	r := g.freshVal(st, "split", ty)
	g.assume(st, fmt.Sprintf("(= %s (splitAll %s %s))", r.T, s.T, sep.T))
	return []Val{r}
}

// strconv.Atoi: a non-empty string of decimal digits that parses yields a non-negative number (= atoi)
func libAtoi(g *FuncGen, c *ast.CallExpr, callee *types.Func, st *State) []Val {
	s := g.ev(c.Args[0], st)
	res := g.libResults(callee, st)
	g.assume(st, fmt.Sprintf("(=> (= %s 0) (= %s (atoi %s)))", res[1].T, res[0].T, s.T))
	g.assume(st, fmt.Sprintf("(=> (and (= %s 0) (allDigits %s)) (>= %s 0))", res[1].T, s.T, res[0].T))
	return res
}

// strings.Index / strings.LastIndex: -1 when the separator does not occur, otherwise the start of an occurrence
func libIndexOf(g *FuncGen, c *ast.CallExpr, callee *types.Func, st *State) []Val {
	a := g.ev(c.Args[0], st)
	b := g.ev(c.Args[1], st)
	r := g.freshVal(st, "idx", types.Typ[types.Int])
	g.assume(st, fmt.Sprintf("(and (<= (- 1) %s) (=> (>= %s 0) (<= (+ %s (blen %s)) (blen %s))))", r.T, r.T, r.T, b.T, a.T))
	g.assume(st, fmt.Sprintf("(= (>= %s 0) (contains %s %s))", r.T, a.T, b.T))
	g.assume(st, fmt.Sprintf("(=> (>= %s 0) (= (bsub %s %s (+ %s (blen %s))) %s))", r.T, a.T, r.T, r.T, b.T, b.T))
	return []Val{r}
}

// strconv.ParseInt(s, 10, 64): the decimal rendering of an int64 parses back to it (assumed); nothing is said about
// other texts or bases
func libParseInt(g *FuncGen, c *ast.CallExpr, callee *types.Func, st *State) []Val {
	s := g.ev(c.Args[0], st)
	base := g.ev(c.Args[1], st)
	bits := g.ev(c.Args[2], st)
	res := g.libResults(callee, st)
	if base.T == "10" && bits.T == "64" {
		g.assume(st, fmt.Sprintf("(forall ((n Int)) (! (=> (and (= %s (fmtd n 0)) (< (- 9223372036854775808) n) (< n 9223372036854775808)) (and (= %s 0) (= %s n))) :pattern ((fmtd n 0))))", s.T, res[1].T, res[0].T))
		g.assume(st, fmt.Sprintf("(and (<= (- 9223372036854775808) %s) (<= %s 9223372036854775807))", res[0].T, res[0].T))
	}
	return res
}
