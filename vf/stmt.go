package main

import (
	"fmt"
	"go/ast"
	"go/token"
	"go/types"
	"sort"
	"strings"
)

type Flow struct {
	next *State
	brk  []*State
	cont []*State
}

func (g *FuncGen) execBlock(stmts []ast.Stmt, st *State) Flow {
	fl := Flow{next: st}
	for _, s := range stmts {
		if fl.next == nil {
			break
		}
		f := g.execStmt(s, fl.next)
		g.normalize(f.next)
		fl.next = f.next
		fl.brk = append(fl.brk, f.brk...)
		fl.cont = append(fl.cont, f.cont...)
	}
	return fl
}

func (g *FuncGen) execStmt(s ast.Stmt, st *State) Flow {
	switch x := s.(type) {
	case *ast.BlockStmt:
		return g.execBlock(x.List, st)
	case *ast.ExprStmt:
		g.evMulti(x.X, st)
		g.proofSteps(x, st)
		return Flow{next: st}
	case *ast.AssignStmt:
		g.execAssign(x, st)
		g.proofSteps(x, st)
		return Flow{next: st}
	case *ast.DeclStmt:
		gd, ok := x.Decl.(*ast.GenDecl)
		if !ok || gd.Tok != token.VAR {
			if ok && (gd.Tok == token.CONST || gd.Tok == token.TYPE) {
				return Flow{next: st}
			}
			g.fail("unsupported declaration")
		}
		for _, sp := range gd.Specs {
			vs := sp.(*ast.ValueSpec)
			if len(vs.Values) == 0 {
				for _, n := range vs.Names {
					o := g.info.Defs[n]
					if o == nil {
						continue
					}
					s := sortOf(o.Type())
					if isLibStruct(o.Type()) {
						// "var b bytes.Buffer": a value of a library struct type is an object of its own; &b and copies of b
						// denote it (the models of the library's methods work on such handles)
						h := g.allocOpaque(st, o.Type())
						st.vars[o] = Val{h.T, o.Type(), s}
						if strings.HasSuffix(o.Type().String(), "strings.Builder") {
							g.ghostSet(st, "$sb", fmt.Sprintf("(store %s %s bempty)", g.ghostGet(st, "$sb"), h.T))
						}
						continue
					}
					st.vars[o] = Val{zeroOfType(o.Type()), o.Type(), s}
				}
			} else if len(vs.Values) == len(vs.Names) {
				for i, n := range vs.Names {
					v := g.ev(vs.Values[i], st)
					if o := g.info.Defs[n]; o != nil {
						st.vars[o] = Val{v.T, o.Type(), sortOf(o.Type())}
					}
				}
			} else {
				vals := g.evMulti(vs.Values[0], st)
				for i, n := range vs.Names {
					if o := g.info.Defs[n]; o != nil {
						st.vars[o] = Val{vals[i].T, o.Type(), sortOf(o.Type())}
					}
				}
			}
		}
		return Flow{next: st}
	case *ast.IncDecStmt:
		v := g.ev(x.X, st)
		op := "+"
		if x.Tok == token.DEC {
			op = "-"
		}
		t := fmt.Sprintf("(%s %s 1)", op, v.T)
		g.ovf(st, t, v.Ty, x.Pos(), g.exprText(x.X)+x.Tok.String())
		g.assignTo(x.X, Val{t, v.Ty, "Int"}, st)
		return Flow{next: st}
	case *ast.ReturnStmt:
		g.execReturn(x, st)
		return Flow{}
	case *ast.IfStmt:
		return g.execIf(x, st)
	case *ast.ForStmt:
		return g.execFor(x, st)
	case *ast.RangeStmt:
		return g.execRange(x, st)
	case *ast.SwitchStmt:
		return g.execSwitch(x, st)
	case *ast.BranchStmt:
		if x.Label != nil {
			g.fail("labelled branch unsupported")
		}
		switch x.Tok {
		case token.BREAK:
			return Flow{brk: []*State{st}}
		case token.CONTINUE:
			return Flow{cont: []*State{st}}
		}
		g.fail("unsupported branch %s", x.Tok)
	case *ast.DeferStmt:
		// dropped on purpose (DESIGN §4.3): only Close() calls are deferred in this repository
		if !isCloseCall(x.Call) {
			g.fail("unsupported defer %s", g.exprText(x.Call))
		}
		return Flow{next: st}
	case *ast.EmptyStmt:
		return Flow{next: st}
	}
	g.fail("unsupported statement %T", s)
	return Flow{}
}

func isCloseCall(c *ast.CallExpr) bool {
	if s, ok := c.Fun.(*ast.SelectorExpr); ok {
		return s.Sel.Name == "Close"
	}
	return false
}

func (g *FuncGen) execReturn(x *ast.ReturnStmt, st *State) {
	var vals []Val
	if len(x.Results) == 1 && len(g.resVals) > 1 {
		vals = g.evMulti(x.Results[0], st)
	} else {
		for _, r := range x.Results {
			vals = append(vals, g.ev(r, st))
		}
	}
	if len(x.Results) > 0 {
		if len(vals) != len(g.resVals) {
			g.fail("return arity mismatch")
		}
		for i, o := range g.resVals {
			st.vars[o] = Val{coerce(vals[i], o.Type()).T, o.Type(), sortOf(o.Type())}
		}
	}
	g.returns = append(g.returns, st)
}

func (g *FuncGen) execIf(x *ast.IfStmt, st *State) Flow {
	if x.Init != nil {
		f := g.execStmt(x.Init, st)
		st = f.next
		if st == nil {
			return f
		}
	}
	c := g.ev(x.Cond, st)
	thenSt := g.newPC(st, c.T)
	elseSt := g.newPC(st, "(not "+c.T+")")
	ft := g.execBlock(x.Body.List, thenSt)
	fe := Flow{next: elseSt}
	if x.Else != nil {
		fe = g.execStmt(x.Else, elseSt)
	}
	out := Flow{}
	out.next = g.merge([]*State{ft.next, fe.next})
	out.brk = append(ft.brk, fe.brk...)
	out.cont = append(ft.cont, fe.cont...)
	return out
}

func (g *FuncGen) execSwitch(x *ast.SwitchStmt, st *State) Flow {
	if x.Init != nil {
		f := g.execStmt(x.Init, st)
		st = f.next
	}
	var tag *Val
	if x.Tag != nil {
		v := g.ev(x.Tag, st)
		tag = &v
	}
	out := Flow{}
	var nexts []*State
	rest := st // state in which no earlier case matched
	var deflt *ast.CaseClause
	for _, cs := range x.Body.List {
		cc := cs.(*ast.CaseClause)
		if cc.List == nil {
			deflt = cc
			continue
		}
		var conds []string
		for _, e := range cc.List {
			v := g.ev(e, rest)
			if tag != nil {
				conds = append(conds, fmt.Sprintf("(= %s %s)", tag.T, v.T))
			} else {
				conds = append(conds, v.T)
			}
		}
		cond := conds[0]
		if len(conds) > 1 {
			cond = "(or " + strings.Join(conds, " ") + ")"
		}
		caseSt := g.newPC(rest, cond)
		rest = g.newPC(rest, "(not "+cond+")")
		f := g.execBlock(cc.Body, caseSt)
		nexts = append(nexts, f.next)
		// break inside a switch leaves the switch
		nexts = append(nexts, f.brk...)
		out.cont = append(out.cont, f.cont...)
	}
	if deflt != nil {
		f := g.execBlock(deflt.Body, rest)
		nexts = append(nexts, f.next)
		nexts = append(nexts, f.brk...)
		out.cont = append(out.cont, f.cont...)
	} else {
		nexts = append(nexts, rest)
	}
	out.next = g.merge(nexts)
	return out
}

// ---------- assignment ----------

func (g *FuncGen) execAssign(x *ast.AssignStmt, st *State) {
	if x.Tok != token.ASSIGN && x.Tok != token.DEFINE {
		// op-assign: x op= y
		if len(x.Lhs) != 1 {
			g.fail("unsupported op-assign")
		}
		var op token.Token
		switch x.Tok {
		case token.ADD_ASSIGN:
			op = token.ADD
		case token.SUB_ASSIGN:
			op = token.SUB
		case token.MUL_ASSIGN:
			op = token.MUL
		default:
			g.fail("unsupported assignment operator %s", x.Tok)
		}
		l := g.ev(x.Lhs[0], st)
		r := g.ev(x.Rhs[0], st)
		var t string
		switch {
		case l.S == "Bytes" && op == token.ADD:
			t = fmt.Sprintf("(bcat %s %s)", l.T, r.T)
		case op == token.ADD:
			t = fmt.Sprintf("(+ %s %s)", l.T, r.T)
		case op == token.SUB:
			t = fmt.Sprintf("(- %s %s)", l.T, r.T)
		default:
			t = fmt.Sprintf("(* %s %s)", l.T, r.T)
		}
		if l.S == "Int" {
			g.ovf(st, t, l.Ty, x.Pos(), g.exprText(x.Lhs[0])+x.Tok.String()+g.exprText(x.Rhs[0]))
		}
		g.assignTo(x.Lhs[0], Val{t, l.Ty, l.S}, st)
		return
	}
	var vals []Val
	if len(x.Rhs) == 1 && len(x.Lhs) > 1 {
		vals = g.evTuple(x.Rhs[0], st, len(x.Lhs))
	} else {
		for _, r := range x.Rhs {
			vals = append(vals, g.ev(r, st))
		}
	}
	if len(vals) != len(x.Lhs) {
		g.fail("assignment arity mismatch at %s", g.P.Fset.Position(x.Pos()))
	}
	for i, l := range x.Lhs {
		g.assignTo(l, vals[i], st)
	}
}

// evTuple: multi-value right-hand sides (calls, comma-ok map reads, type assertions).
func (g *FuncGen) evTuple(e ast.Expr, st *State, n int) []Val {
	switch x := e.(type) {
	case *ast.CallExpr:
		return g.evCall(x, st)
	case *ast.IndexExpr:
		base := g.ev(x.X, st)
		if m, ok := types.Unalias(base.Ty).Underlying().(*types.Map); ok {
			k := g.ev(x.Index, st)
			has, val := g.mapArrays(st, m)
			okT := fmt.Sprintf("(and (not (= %s 0)) (select (select %s %s) %s))", base.T, has, base.T, k.T)
			vs := sortOf(m.Elem())
			v := fmt.Sprintf("(ite %s (select (select %s %s) %s) %s)", okT, val, base.T, k.T, zeroOf(vs))
			rv := Val{v, m.Elem(), vs}
			if isRefType(m.Elem()) {
				// values stored in maps are allocated references
				g.assume(st, fmt.Sprintf("(or (= %s 0) (select %s %s))", v, st.heap["$alloc"], v))
			}
			return []Val{rv, {okT, types.Typ[types.Bool], "Bool"}}
		}
	case *ast.TypeAssertExpr:
		ty := g.typeOf(x.Type)
		return []Val{g.freshVal(st, "assert", ty), g.freshVal(st, "ok", types.Typ[types.Bool])}
	}
	g.fail("unsupported multi-value expression %s", g.exprText(e))
	return nil
}

func (g *FuncGen) assignTo(lhs ast.Expr, v Val, st *State) {
	if lt := g.typeOf(lhs); lt != nil {
		v = coerce(v, lt)
	}
	switch l := lhs.(type) {
	case *ast.ParenExpr:
		g.assignTo(l.X, v, st)
	case *ast.Ident:
		if l.Name == "_" {
			return
		}
		o := g.info.ObjectOf(l)
		vv, ok := o.(*types.Var)
		if !ok {
			g.fail("assignment to non-variable %s", l.Name)
		}
		s := sortOf(vv.Type())
		if vv.Parent() == vv.Pkg().Scope() {
			key := globalKey(vv)
			g.globalGet(st, vv)
			st.heap[key] = v.T
			return
		}
		st.vars[vv] = Val{v.T, vv.Type(), s}
	case *ast.SelectorExpr:
		sel, ok := g.info.Selections[l]
		if !ok || sel.Kind() != types.FieldVal {
			g.fail("unsupported assignment target %s", g.exprText(lhs))
		}
		base := g.ev(l.X, st)
		path := sel.Index()
		g.assignPath(l.X, base, path, v, st, l.Pos(), g.exprText(lhs))
	case *ast.IndexExpr:
		base := g.ev(l.X, st)
		src := g.exprText(lhs)
		if m, ok := types.Unalias(base.Ty).Underlying().(*types.Map); ok {
			k := g.ev(l.Index, st)
			g.oblige(st, "mapnil", src, nil, fmt.Sprintf("(not (= %s 0))", base.T), l.Pos(), src)
			has, val := g.mapArrays(st, m)
			hk := "$map." + sanitize(m.String()) + ".has"
			vk := "$map." + sanitize(m.String()) + ".val"
			st.heap[hk] = fmt.Sprintf("(store %s %s (store (select %s %s) %s true))", has, base.T, has, base.T, k.T)
			st.heap[vk] = fmt.Sprintf("(store %s %s (store (select %s %s) %s %s))", val, base.T, val, base.T, k.T, v.T)
			return
		}
		i := g.ev(l.Index, st)
		if strings.HasPrefix(base.S, "(Sq ") {
			g.oblige(st, "bounds", src, nil, fmt.Sprintf("(and (<= 0 %s) (< %s (slen %s)))", i.T, i.T, base.T), l.Pos(), src)
			nv := Val{fmt.Sprintf("(mkseq (slen %s) (store (selems %s) %s %s))", base.T, base.T, i.T, v.T), base.Ty, base.S}
			g.assignTo(l.X, nv, st)
			return
		}
		g.fail("unsupported indexed assignment %s", src)
	case *ast.StarExpr:
		g.fail("unsupported assignment through pointer %s", g.exprText(lhs))
	default:
		g.fail("unsupported assignment target %T", lhs)
	}
}

// assignPath writes v into base.f1.f2...; baseExpr is the Go expression of base (for value structs).
func (g *FuncGen) assignPath(baseExpr ast.Expr, base Val, path []int, v Val, st *State, pos token.Pos, src string) {
	n, s, ok := structOf(base.Ty)
	if !ok {
		g.fail("field assignment on non-struct")
	}
	f := s.Field(path[0])
	fs := sortOf(f.Type())
	_, isPtr := types.Unalias(base.Ty).Underlying().(*types.Pointer)
	var nv string
	if len(path) == 1 {
		nv = v.T
	} else {
		// nested value struct (embedded or explicit)
		g.quiet++
		cur := g.fieldRead(st, base, path[0], pos, src)
		g.quiet--
		if _, innerPtr := types.Unalias(cur.Ty).Underlying().(*types.Pointer); innerPtr {
			g.assignPath(nil, cur, path[1:], v, st, pos, src)
			return
		}
		nv = g.updatePath(st, cur, path[1:], v)
	}
	if isPtr {
		if !isRepoPkg(n.Obj().Pkg()) {
			g.fail("assignment to field of library struct %s", src)
		}
		g.oblige(st, "nil", src, nil, fmt.Sprintf("(not (= %s 0))", base.T), pos, src)
		key := fieldKey(n, f.Name())
		h := g.heapGet(st, key, fs)
		st.heap[key] = fmt.Sprintf("(store %s %s %s)", h, base.T, nv)
		return
	}
	// value struct: rebuild and assign back to the base expression
	if baseExpr == nil {
		g.fail("cannot assign into struct value %s", src)
	}
	g.assignTo(baseExpr, Val{structUpdate(base, path[0], nv), base.Ty, base.S}, st)
}

func (g *FuncGen) updatePath(st *State, base Val, path []int, v Val) string {
	if len(path) == 1 {
		return structUpdate(base, path[0], v.T)
	}
	g.quiet++
	cur := g.fieldRead(st, base, path[0], token.NoPos, "")
	g.quiet--
	return structUpdate(base, path[0], g.updatePath(st, cur, path[1:], v))
}

// ---------- loops ----------

type writeSet struct {
	vars   map[types.Object]bool
	fields map[string]bool // assigned through a reference
	allocT map[string]bool // struct types allocated
	maps   bool
	alloc  bool
	all    bool // uncontracted effects: havoc everything
}

func newWriteSet() *writeSet {
	return &writeSet{vars: map[types.Object]bool{}, fields: map[string]bool{}, allocT: map[string]bool{}}
}

// scanWrites collects what a statement list may assign (syntactic, conservative).
func (g *FuncGen) scanWrites(n ast.Node, ws *writeSet) {
	ast.Inspect(n, func(nd ast.Node) bool {
		switch x := nd.(type) {
		case *ast.FuncLit:
			return false
		case *ast.AssignStmt:
			for _, l := range x.Lhs {
				g.scanLhs(l, ws)
			}
		case *ast.IncDecStmt:
			g.scanLhs(x.X, ws)
		case *ast.RangeStmt:
			if x.Key != nil {
				g.scanLhs(x.Key, ws)
			}
			if x.Value != nil {
				g.scanLhs(x.Value, ws)
			}
		case *ast.DeclStmt:
			if gd, ok := x.Decl.(*ast.GenDecl); ok {
				for _, sp := range gd.Specs {
					if vs, ok := sp.(*ast.ValueSpec); ok {
						for _, nm := range vs.Names {
							if o := g.info.Defs[nm]; o != nil {
								ws.vars[o] = true
							}
						}
					}
				}
			}
		case *ast.UnaryExpr:
			if x.Op == token.AND {
				if cl, ok := x.X.(*ast.CompositeLit); ok {
					if nn, _, ok := structOf(g.typeOf(cl)); ok {
						ws.allocT[namedKey(nn)] = true
					}
					ws.alloc = true
				} else {
					// &x passed somewhere: x may be written
					g.scanLhs(x.X, ws)
				}
			}
		case *ast.CompositeLit:
			if _, ok := types.Unalias(g.typeOf(x)).Underlying().(*types.Map); ok {
				ws.alloc = true
				ws.maps = true
			}
		case *ast.CallExpr:
			g.scanCallWrites(x, ws)
		}
		return true
	})
}

func (g *FuncGen) scanLhs(l ast.Expr, ws *writeSet) {
	switch x := l.(type) {
	case *ast.Ident:
		if o := g.info.ObjectOf(x); o != nil {
			if v, ok := o.(*types.Var); ok {
				ws.vars[v] = true
			}
		}
	case *ast.ParenExpr:
		g.scanLhs(x.X, ws)
	case *ast.SelectorExpr:
		if sel, ok := g.info.Selections[x]; ok && sel.Kind() == types.FieldVal {
			// find the first pointer step: that heap field is written; otherwise the root variable
			cur := g.typeOf(x.X)
			wrote := false
			for _, idx := range sel.Index() {
				n, s, ok := structOf(cur)
				if !ok {
					break
				}
				if _, isPtr := types.Unalias(cur).Underlying().(*types.Pointer); isPtr {
					ws.fields[fieldKey(n, s.Field(idx).Name())] = true
					wrote = true
				}
				cur = s.Field(idx).Type()
			}
			if !wrote {
				g.scanLhs(x.X, ws)
			} else {
				// also value-struct ancestors reached through a pointer are covered by the field write
			}
		}
	case *ast.IndexExpr:
		if _, ok := types.Unalias(g.typeOf(x.X)).Underlying().(*types.Map); ok {
			ws.maps = true
			return
		}
		g.scanLhs(x.X, ws)
	case *ast.StarExpr:
		ws.all = true
	}
}

func (g *FuncGen) scanCallWrites(c *ast.CallExpr, ws *writeSet) {
	callee := g.calleeFunc(c)
	if callee != nil {
		if fi := g.P.ByObj[callee]; fi != nil {
			for k := range fi.Writes {
				if strings.HasPrefix(k, "$g.") {
					// global
					ws.fields[k] = true
				} else if k == "$maps" {
					ws.maps = true
				} else {
					ws.fields[k] = true
				}
			}
			for k := range fi.Allocs {
				ws.allocT[k] = true
				ws.alloc = true
			}
			return
		}
		// library call
		name := callee.FullName()
		if name == "sort.Slice" && len(c.Args) > 0 {
			g.scanLhs(c.Args[0], ws)
		}
		// a read fills its buffer: "buf" or "arr[:]"
		if strings.HasSuffix(name, ".Read") || name == "io.ReadFull" || name == "io.ReadAtLeast" {
			for _, a := range c.Args {
				if id := bufferVar(a); id != nil {
					g.scanLhs(id, ws)
				}
			}
		}
		for _, k := range libEffectKeys(name) {
			ws.fields[k] = true
		}
		return
	}
	// builtin / conversion / call through a function value
	if id, ok := c.Fun.(*ast.Ident); ok {
		if _, isB := g.info.ObjectOf(id).(*types.Builtin); isB {
			if id.Name == "delete" {
				ws.maps = true
			}
			if id.Name == "make" || id.Name == "new" {
				ws.alloc = true
				if len(c.Args) > 0 {
					if _, ok := types.Unalias(g.typeOf(c.Args[0])).Underlying().(*types.Map); ok {
						ws.maps = true
					}
				}
			}
			return
		}
	}
	if tv, ok := g.info.Types[c.Fun]; ok && tv.IsType() {
		return
	}
	// function value: unknown effects
	ws.all = true
}

func (g *FuncGen) calleeFunc(c *ast.CallExpr) *types.Func {
	var id *ast.Ident
	switch f := c.Fun.(type) {
	case *ast.Ident:
		id = f
	case *ast.SelectorExpr:
		id = f.Sel
	case *ast.ParenExpr:
		return nil
	default:
		return nil
	}
	if fn, ok := g.info.ObjectOf(id).(*types.Func); ok {
		return fn
	}
	return nil
}

// havoc replaces everything in ws by fresh values in st; pre is the state before (for allocation frames).
func (g *FuncGen) havoc(st *State, ws *writeSet, why string) {
	pre := st.clone()
	var objs []types.Object
	for o := range ws.vars {
		if _, ok := st.vars[o]; ok {
			objs = append(objs, o)
		}
	}
	sort.Slice(objs, func(i, j int) bool { return objs[i].Pos() < objs[j].Pos() })
	for _, o := range objs {
		st.vars[o] = g.freshVal(st, "hv_"+o.Name(), o.Type())
	}
	if ws.all {
		for k := range st.heap {
			if k == "$alloc" {
				continue
			}
			ws.fields[k] = true
		}
		ws.alloc = true
	}
	if ws.alloc {
		na := g.fresh("alloc", "(Array Int Bool)")
		g.emit(fmt.Sprintf("(assert (forall ((r Int)) (! (=> (select %s r) (select %s r)) :pattern ((select %s r)))))", pre.heap["$alloc"], na, na))
		st.heap["$alloc"] = na
	}
	var keys []string
	for k := range ws.fields {
		keys = append(keys, k)
	}
	if ws.maps {
		for _, m := range g.P.MapTypes {
			g.mapArrays(pre, m)
		}
		for k := range g.heapKeys {
			if strings.HasPrefix(k, "$map.") {
				keys = append(keys, k)
			}
		}
	}
	sort.Strings(keys)
	seen := map[string]bool{}
	for _, k := range keys {
		if seen[k] || k == "$all" || k == "$maps" {
			continue
		}
		seen[k] = true
		if isGhostKey(k) {
			g.ghostGet(pre, k)
			st.heap[k] = g.fresh("hv_"+heapName(k), ghostKeys[k])
			if k == "$out" {
				g.emit(fmt.Sprintf("(assert (<= 0 (slen %s)))", st.heap[k]))
			}
			continue
		}
		if strings.HasPrefix(k, "$g.") {
			if _, ok := g.heapKeys[k]; !ok {
				gv := g.P.globalVar(k)
				if gv == nil {
					continue
				}
				g.globalGet(pre, gv)
			}
			st.heap[k] = g.fresh("hv_"+heapName(k), g.heapKeys[k])
			continue
		}
		if strings.HasPrefix(k, "$map.") {
			st.heap[k] = g.fresh("hv_"+heapName(k), "(Array Int "+g.heapKeys[k]+")")
			if strings.HasSuffix(k, ".val") {
				for _, m := range g.P.MapTypes {
					if "$map."+sanitize(m.String())+".val" == k {
						hk := strings.TrimSuffix(k, ".val") + ".has"
						if h, ok := st.heap[hk]; ok {
							g.mapWF(m, h, st.heap[k], st.heap["$alloc"])
						}
					}
				}
			}
			continue
		}
		srt, ok := g.heapKeys[k]
		if !ok {
			fs, ok2 := g.P.fieldSort(k)
			if !ok2 {
				continue
			}
			g.heapGet(pre, k, fs)
			srt = fs
		}
		st.heap[k] = g.fresh("hv_"+heapName(k), "(Array Int "+srt+")")
		g.heapWF(k, st.heap[k], st.heap["$alloc"])
	}
	// allocation-only fields: existing objects keep their values
	var ak []string
	for t := range ws.allocT {
		ak = append(ak, t)
	}
	sort.Strings(ak)
	for _, t := range ak {
		for _, n := range g.P.Structs {
			if namedKey(n) != t {
				continue
			}
			stt := n.Underlying().(*types.Struct)
			for i := 0; i < stt.NumFields(); i++ {
				k := fieldKey(n, stt.Field(i).Name())
				if seen[k] {
					continue
				}
				seen[k] = true
				srt := sortOf(stt.Field(i).Type())
				old := g.heapGet(pre, k, srt)
				nh := g.fresh("hv_"+heapName(k), "(Array Int "+srt+")")
				g.emit(fmt.Sprintf("(assert (forall ((r Int)) (! (=> (select %s r) (= (select %s r) (select %s r))) :pattern ((select %s r)))))", pre.heap["$alloc"], nh, old, nh))
				st.heap[k] = nh
				g.heapWF(k, nh, st.heap["$alloc"])
			}
		}
	}
	_ = why
}

func (g *FuncGen) loopSpec() (*LoopSpec, int) {
	if len(g.inlineStack) > 0 {
		// loops of an inlined callee carry no invariant and do not take part in the caller's loop numbering
		g.inlineOrd++
		return nil, 1000 + g.inlineOrd
	}
	ord := g.loopOrd
	g.loopOrd++
	if g.F.Spec != nil {
		ls, ok := g.F.Spec.Loops[ord]
		if len(g.F.Spec.AllInv) > 0 {
			merged := &LoopSpec{}
			for i, c := range g.F.Spec.AllInv {
				cc := *c
				if cc.Label == "" {
					cc.Label = fmt.Sprintf("all%d", i)
				}
				merged.Invariants = append(merged.Invariants, &cc)
			}
			if ok {
				merged.Invariants = append(merged.Invariants, ls.Invariants...)
				merged.Decreases = ls.Decreases
			}
			return merged, ord
		}
		if ok {
			return ls, ord
		}
	}
	return nil, ord
}

func (g *FuncGen) invEnv(st *State, pos token.Pos, extra map[string]Val) *CEnv {
	env := &CEnv{g: g, pkg: g.F.Pkg, st: st, old: g.entry, names: map[string]Val{}, pos: pos}
	if sc := g.F.Pkg.Types.Scope().Innermost(pos); sc != nil {
		env.scope = sc
	}
	for k, v := range extra {
		env.names[k] = v
	}
	return env
}

func (g *FuncGen) checkInvariants(st *State, ls *LoopSpec, ord int, kind string, pos token.Pos, extra map[string]Val) {
	if ls == nil || st == nil {
		return
	}
	for i, inv := range ls.Invariants {
		label := inv.Label
		if label == "" {
			label = fmt.Sprintf("%d", i)
		}
		env := g.invEnv(st, pos, extra)
		t := env.evalBool(inv.Expr)
		g.oblige(st, fmt.Sprintf("%s/loop%d", kind, ord), label, inv.Tags, t, pos, inv.Src)
	}
}

func (g *FuncGen) assumeInvariants(st *State, ls *LoopSpec, pos token.Pos, extra map[string]Val) {
	if ls == nil {
		return
	}
	for _, inv := range ls.Invariants {
		env := g.invEnv(st, pos, extra)
		g.assume(st, env.evalBool(inv.Expr))
	}
}

func (g *FuncGen) decValues(st *State, ls *LoopSpec, pos token.Pos, extra map[string]Val) []string {
	if ls == nil || ls.Decreases == nil {
		return nil
	}
	var out []string
	for _, e := range ls.Decreases.Exprs {
		env := g.invEnv(st, pos, extra)
		out = append(out, env.eval(e).T)
	}
	return out
}

func lexLess(newV, oldV []string) string {
	// lexicographic: some prefix equal, next strictly smaller and bounded below by 0
	var alts []string
	for i := range newV {
		var conj []string
		for j := 0; j < i; j++ {
			conj = append(conj, fmt.Sprintf("(= %s %s)", newV[j], oldV[j]))
		}
		conj = append(conj, fmt.Sprintf("(< %s %s)", newV[i], oldV[i]), fmt.Sprintf("(<= 0 %s)", oldV[i]))
		alts = append(alts, "(and "+strings.Join(conj, " ")+")")
	}
	if len(alts) == 1 {
		return alts[0]
	}
	return "(or " + strings.Join(alts, " ") + ")"
}

func (g *FuncGen) execFor(x *ast.ForStmt, st *State) Flow {
	ls, ord := g.loopSpec()
	if x.Init != nil {
		st = g.execStmt(x.Init, st).next
	}
	bodyPos := x.Body.Lbrace
	// a counting loop "for i := 0; i < len(X); i++" whose body assigns neither i nor X is a range loop written out:
	// invariants may call its counter "it", and 0 <= i <= len(X) is an invariant that is checked like a stated one
	ivObj, ivBound := g.countingLoop(x)
	itOf := func(s *State) map[string]Val {
		if ivObj == nil || s == nil {
			return nil
		}
		if v, ok := s.vars[ivObj]; ok {
			return map[string]Val{"it": v}
		}
		return nil
	}
	autoInv := func(s *State) string {
		if ivObj == nil || s == nil {
			return ""
		}
		iv, ok := s.vars[ivObj]
		if !ok {
			return ""
		}
		g.quiet++
		n := g.ev(ivBound, s)
		g.quiet--
		return fmt.Sprintf("(and (<= 0 %s) (<= %s %s))", iv.T, iv.T, n.T)
	}
	// 1. invariant on entry
	g.checkInvariants(st, ls, ord, "inv-entry", bodyPos, itOf(st))
	if f := autoInv(st); f != "" {
		g.oblige(st, fmt.Sprintf("inv-entry/loop%d", ord), "counter-range", nil, f, bodyPos, "0 <= counter <= bound (counting loop)")
	}
	// 2. havoc loop targets
	ws := newWriteSet()
	g.scanWrites(x.Body, ws)
	if x.Post != nil {
		g.scanWrites(x.Post, ws)
	}
	if x.Cond != nil {
		g.scanWrites(x.Cond, ws)
	}
	fkeys := g.frameKeys(ws)
	for _, k := range fkeys {
		g.oblige(st, fmt.Sprintf("frame-entry/loop%d", ord), k, nil, g.frameFormula(st, k), x.Pos(), k+" unchanged on objects existing at entry")
	}
	g.ioLoopEntry(st, ord, x.Pos())
	head := st.clone()
	g.havoc(head, ws, "loop")
	for _, k := range fkeys {
		g.assume(head, g.frameFormula(head, k))
	}
	g.assumeInvariants(head, ls, bodyPos, itOf(head))
	g.ioLoopAssume(head)
	if f := autoInv(head); f != "" {
		g.assume(head, f)
	}
	dec0 := g.decValues(head, ls, bodyPos, itOf(head))
	// a counting loop without a stated measure has the obvious one, bound - counter, checked like a stated one
	autoDec := func(s *State) string {
		if ivObj == nil || s == nil || (ls != nil && ls.Decreases != nil) {
			return ""
		}
		iv, ok := s.vars[ivObj]
		if !ok {
			return ""
		}
		g.quiet++
		n := g.ev(ivBound, s)
		g.quiet--
		return fmt.Sprintf("(- %s %s)", n.T, iv.T)
	}
	autoDec0 := autoDec(head)
	// 3. condition
	var bodySt, exitSt *State
	if x.Cond != nil {
		c := g.ev(x.Cond, head)
		bodySt = g.newPC(head, c.T)
		exitSt = g.newPC(head, "(not "+c.T+")")
	} else {
		bodySt = head.clone()
	}
	fl := g.execBlock(x.Body.List, bodySt)
	back := g.merge(append([]*State{fl.next}, fl.cont...))
	if back != nil && x.Post != nil {
		back = g.execStmt(x.Post, back).next
	}
	if back != nil {
		for _, k := range fkeys {
			g.oblige(back, fmt.Sprintf("frame-keep/loop%d", ord), k, nil, g.frameFormula(back, k), x.Pos(), k+" unchanged on objects existing at entry")
		}
		g.checkInvariants(back, ls, ord, "inv-keep", bodyPos, itOf(back))
		g.ioLoopKeep(back, ord, bodyPos)
		if f := autoInv(back); f != "" {
			g.oblige(back, fmt.Sprintf("inv-keep/loop%d", ord), "counter-range", nil, f, bodyPos, "0 <= counter <= bound (counting loop)")
		}
		if dec0 != nil {
			dec1 := g.decValues(back, ls, bodyPos, itOf(back))
			g.oblige(back, fmt.Sprintf("dec/loop%d", ord), "", ls.Decreases.Tags, lexLess(dec1, dec0), x.Pos(), "decreases "+ls.Decreases.Src)
		}
		if d1 := autoDec(back); autoDec0 != "" && d1 != "" && g.F.Spec != nil && g.F.Spec.Decr != nil && len(g.inlineStack) == 0 {
			g.oblige(back, fmt.Sprintf("dec/loop%d", ord), "counter", g.F.Spec.Decr.Tags, fmt.Sprintf("(and (>= %s 0) (< %s %s))", d1, d1, autoDec0), x.Pos(), "bound - counter decreases (counting loop)")
		}
	}
	if (ls == nil || ls.Decreases == nil) && autoDec0 == "" {
		g.notes = append(g.notes, fmt.Sprintf("termination of loop %d in %s not proved (no decreases clause)", ord, g.F.Key))
		// a function whose contract claims termination (a function-level decreases clause) has a measure for every
		// for-loop it contains; a loop added without one is an open termination obligation
		if len(g.inlineStack) == 0 && g.F.Spec != nil && g.F.Spec.Decr != nil {
			g.oblige(st, fmt.Sprintf("dec/loop%d", ord), "no-measure", g.F.Spec.Decr.Tags, "false", x.Pos(),
				"the function's contract claims termination, this loop has no decreases clause")
		}
	}
	return Flow{next: g.merge(append([]*State{exitSt}, fl.brk...))}
}

func (g *FuncGen) execRange(x *ast.RangeStmt, st *State) Flow {
	ls, ord := g.loopSpec()
	coll := g.ev(x.X, st)
	bodyPos := x.Body.Lbrace
	var lenT string
	isMap := false
	switch {
	case coll.S == "Bytes":
		if _, isStr := types.Unalias(coll.Ty).Underlying().(*types.Basic); isStr {
			g.fail("range over string (runes) unsupported")
		}
		lenT = fmt.Sprintf("(blen %s)", coll.T)
	case strings.HasPrefix(coll.S, "(Sq "):
		lenT = fmt.Sprintf("(slen %s)", coll.T)
	default:
		if _, ok := types.Unalias(coll.Ty).Underlying().(*types.Map); ok {
			isMap = true
			lenT = g.fresh("maplen", "Int")
			g.fact(fmt.Sprintf("(<= 0 %s)", lenT))
		} else {
			g.fail("range over %v unsupported", coll.Ty)
		}
	}
	zero := Val{"0", types.Typ[types.Int], "Int"}
	g.checkInvariants(st, ls, ord, "inv-entry", bodyPos, map[string]Val{"it": zero})
	ws := newWriteSet()
	g.scanWrites(x.Body, ws)
	fkeys := g.frameKeys(ws)
	for _, fk := range fkeys {
		g.oblige(st, fmt.Sprintf("frame-entry/loop%d", ord), fk, nil, g.frameFormula(st, fk), x.Pos(), fk+" unchanged on objects existing at entry")
	}
	g.ioLoopEntry(st, ord, x.Pos())
	head := st.clone()
	g.havoc(head, ws, "range")
	for _, fk := range fkeys {
		g.assume(head, g.frameFormula(head, fk))
	}
	k := g.fresh("it", "Int")
	kv := Val{k, types.Typ[types.Int], "Int"}
	g.assume(head, fmt.Sprintf("(and (<= 0 %s) (<= %s %s))", k, k, lenT))
	extra := map[string]Val{"it": kv}
	g.assumeInvariants(head, ls, bodyPos, extra)
	g.ioLoopAssume(head)
	bodySt := g.newPC(head, fmt.Sprintf("(< %s %s)", k, lenT))
	exitSt := g.newPC(head, fmt.Sprintf("(>= %s %s)", k, lenT))
	// bind key / value
	bind := func(e ast.Expr, v Val) {
		if e == nil {
			return
		}
		if id, ok := e.(*ast.Ident); ok && id.Name == "_" {
			return
		}
		if x.Tok == token.DEFINE {
			if id, ok := e.(*ast.Ident); ok {
				if o := g.info.Defs[id]; o != nil {
					bodySt.vars[o] = Val{v.T, o.Type(), sortOf(o.Type())}
					return
				}
			}
		}
		g.assignTo(e, v, bodySt)
	}
	if isMap {
		m := types.Unalias(coll.Ty).Underlying().(*types.Map)
		key := g.freshVal(bodySt, "mapkey", m.Key())
		has, val := g.mapArrays(bodySt, m)
		g.assume(bodySt, fmt.Sprintf("(select (select %s %s) %s)", has, coll.T, key.T))
		bind(x.Key, key)
		ev := Val{fmt.Sprintf("(select (select %s %s) %s)", val, coll.T, key.T), m.Elem(), sortOf(m.Elem())}
		if isRefType(m.Elem()) {
			g.assume(bodySt, fmt.Sprintf("(and (not (= %s 0)) (select %s %s))", ev.T, bodySt.heap["$alloc"], ev.T))
		}
		bind(x.Value, ev)
	} else {
		bind(x.Key, kv)
		if x.Value != nil {
			var ev Val
			if coll.S == "Bytes" {
				ev = Val{fmt.Sprintf("(bat %s %s)", coll.T, k), types.Typ[types.Uint8], "Int"}
			} else {
				et := elemType(coll.Ty)
				ev = Val{fmt.Sprintf("(select (selems %s) %s)", coll.T, k), et, sortOf(et)}
			}
			g.typeFacts(bodySt, ev.T, ev.Ty)
			bind(x.Value, ev)
		}
	}
	fl := g.execBlock(x.Body.List, bodySt)
	back := g.merge(append([]*State{fl.next}, fl.cont...))
	if back != nil {
		for _, fk := range fkeys {
			g.oblige(back, fmt.Sprintf("frame-keep/loop%d", ord), fk, nil, g.frameFormula(back, fk), x.Pos(), fk+" unchanged on objects existing at entry")
		}
		next := Val{fmt.Sprintf("(+ %s 1)", k), types.Typ[types.Int], "Int"}
		g.checkInvariants(back, ls, ord, "inv-keep", bodyPos, map[string]Val{"it": next})
		g.ioLoopKeep(back, ord, bodyPos)
	}
	// range loops over slices and maps terminate by construction
	return Flow{next: g.merge(append([]*State{exitSt}, fl.brk...))}
}

// normalize names compound heap and variable terms so later terms (and quantifier patterns) stay small.
func (g *FuncGen) normalize(st *State) {
	if st == nil {
		return
	}
	var keys []string
	for k, t := range st.heap {
		if strings.HasPrefix(t, "(") {
			keys = append(keys, k)
		}
	}
	sort.Strings(keys)
	for _, k := range keys {
		srt := "(Array Int Bool)"
		if k != "$alloc" {
			srt = g.heapSort(k)
		}
		n := g.fresh(heapName(k), srt)
		g.emit(fmt.Sprintf("(assert (= %s %s))", n, st.heap[k]))
		st.heap[k] = n
	}
	var objs []types.Object
	for o, v := range st.vars {
		if strings.HasPrefix(v.T, "(") && (len(v.T) > 48 || strings.HasPrefix(v.S, "(Sq ")) {
			objs = append(objs, o)
		}
	}
	sort.Slice(objs, func(i, j int) bool {
		if objs[i].Pos() != objs[j].Pos() {
			return objs[i].Pos() < objs[j].Pos()
		}
		return objs[i].Name() < objs[j].Name()
	})
	for _, o := range objs {
		v := st.vars[o]
		n := g.fresh("v_"+o.Name(), v.S)
		g.emit(fmt.Sprintf("(assert (= %s %s))", n, v.T))
		g.typeFacts(st, n, v.Ty)
		st.vars[o] = Val{n, v.Ty, v.S}
	}
}

// frameKeys: heap fields a loop may write that the function's contract does not list under modifies.
// "unchanged on objects that existed at entry" is then an automatic loop invariant (checked and assumed).
func (g *FuncGen) frameKeys(ws *writeSet) []string {
	if g.F.Spec == nil || !(g.F.Spec.HasMods || g.F.Spec.Pure) {
		return nil
	}
	allowed := map[string]bool{}
	for _, m := range g.F.Spec.Modifies {
		if m == "*" {
			return nil
		}
		if m == "maps" {
			continue
		}
		allowed[g.resolveModKey(g.F, m)] = true
	}
	var out []string
	add := func(k string) {
		if allowed[k] || strings.HasPrefix(k, "$") {
			return
		}
		if _, ok := g.P.fieldSort(k); ok {
			out = append(out, k)
		}
	}
	for k := range ws.fields {
		add(k)
	}
	// a loop that writes maps, in a function that may not modify maps: the maps that existed at entry keep their content
	// (the loop fills a map the function has made itself)
	if ws.maps || ws.all {
		mapsAllowed := false
		for _, m := range g.F.Spec.Modifies {
			mapsAllowed = mapsAllowed || m == "maps"
		}
		if !mapsAllowed && g.entry != nil {
			for _, m := range g.P.MapTypes {
				g.mapArrays(g.entry, m)
			}
			for k := range g.heapKeys {
				if strings.HasPrefix(k, "$map.") {
					out = append(out, k)
				}
			}
		}
	}
	for t := range ws.allocT {
		for _, n := range g.P.Structs {
			if namedKey(n) == t {
				stt := n.Underlying().(*types.Struct)
				for i := 0; i < stt.NumFields(); i++ {
					add(fieldKey(n, stt.Field(i).Name()))
				}
			}
		}
	}
	sort.Strings(out)
	var uniq []string
	for i, k := range out {
		if i == 0 || out[i-1] != k {
			uniq = append(uniq, k)
		}
	}
	return uniq
}

func (g *FuncGen) frameFormula(st *State, k string) string {
	fs, _ := g.P.fieldSort(k)
	if strings.HasPrefix(k, "$map.") {
		fs = g.heapKeys[k]
	}
	cur := g.heapGet(st, k, fs)
	e := heapName(k) + "_0"
	if g.entry != nil {
		if x, ok := g.entry.heap[k]; ok {
			e = x
		}
	}
	return fmt.Sprintf("(forall ((r Int)) (! (=> (select alloc_0 r) (= (select %s r) (select %s r))) :pattern ((select %s r))))", cur, e, cur)
}

// countingLoop recognises "for i := 0; i < len(X); i++ { body }" where the body assigns neither i nor (syntactically)
// the variable X; it returns i's object and the bound expression len(X).
func (g *FuncGen) countingLoop(x *ast.ForStmt) (types.Object, ast.Expr) {
	init, ok := x.Init.(*ast.AssignStmt)
	if !ok || init.Tok != token.DEFINE || len(init.Lhs) != 1 || len(init.Rhs) != 1 {
		return nil, nil
	}
	id, ok := init.Lhs[0].(*ast.Ident)
	if !ok {
		return nil, nil
	}
	if lit, ok := init.Rhs[0].(*ast.BasicLit); !ok || lit.Value != "0" {
		return nil, nil
	}
	post, ok := x.Post.(*ast.IncDecStmt)
	if !ok || post.Tok != token.INC {
		return nil, nil
	}
	if pid, ok := post.X.(*ast.Ident); !ok || pid.Name != id.Name {
		return nil, nil
	}
	cond, ok := x.Cond.(*ast.BinaryExpr)
	if !ok || cond.Op != token.LSS {
		return nil, nil
	}
	if cid, ok := cond.X.(*ast.Ident); !ok || cid.Name != id.Name {
		return nil, nil
	}
	call, ok := cond.Y.(*ast.CallExpr)
	if !ok || len(call.Args) != 1 {
		return nil, nil
	}
	if fn, ok := call.Fun.(*ast.Ident); !ok || fn.Name != "len" {
		return nil, nil
	}
	obj := g.info.Defs[id]
	if obj == nil {
		return nil, nil
	}
	ws := newWriteSet()
	g.scanWrites(x.Body, ws)
	if ws.all || ws.vars[obj] {
		return nil, nil
	}
	// the collection must be a plain variable or field path that the body does not assign
	switch c := call.Args[0].(type) {
	case *ast.Ident:
		if o := g.info.ObjectOf(c); o == nil || ws.vars[o] {
			return nil, nil
		}
	case *ast.SelectorExpr:
		cws := newWriteSet()
		g.scanLhs(c, cws)
		for k := range cws.fields {
			if ws.fields[k] {
				return nil, nil
			}
		}
		for o := range cws.vars {
			if ws.vars[o] {
				return nil, nil
			}
		}
	default:
		return nil, nil
	}
	return obj, cond.Y
}

// Loops of a function that reports I/O failures (genfunc.go, ioReporting): no failure is pending at the loop head - an
// iteration in which a file-system modification fails must leave the function with an error, not go round again.
// Assumed at the head after the havoc, checked on the back edge.
func (g *FuncGen) ioLoopAssume(head *State) {
	if _, ok := head.heap["$rdfail"]; ok {
		// a read fault is an I/O failure (invariant of the two flags, kept by every primitive and every call)
		g.assume(head, fmt.Sprintf("(=> %s %s)", g.ghostGet(head, "$rdfail"), g.ghostGet(head, "$iofail")))
	}
	if len(g.inlineStack) > 0 || !ioReporting(g.F) || g.entry == nil {
		return
	}
	e, ok := g.entry.heap["$iofail"]
	if !ok {
		return
	}
	g.assume(head, fmt.Sprintf("(=> %s %s)", g.ghostGet(head, "$iofail"), e))
}

// ioLoopEntry: the assumption ioLoopAssume makes at the loop head has to hold when the loop is first reached as well:
// no failure is pending there either (a failed write before a loop must have left the function already).
func (g *FuncGen) ioLoopEntry(st *State, ord int, pos token.Pos) {
	if len(g.inlineStack) > 0 || !ioReporting(g.F) || g.entry == nil || st == nil {
		return
	}
	e, ok := g.entry.heap["$iofail"]
	if !ok {
		return
	}
	g.oblige(st, fmt.Sprintf("iofail-keep/loop%d", ord), "entry", nil, fmt.Sprintf("(=> %s %s)", g.ghostGet(st, "$iofail"), e), pos,
		"no failed file-system operation is pending when the loop is reached")
}

func (g *FuncGen) ioLoopKeep(back *State, ord int, pos token.Pos) {
	if len(g.inlineStack) > 0 || !ioReporting(g.F) || g.entry == nil || back == nil {
		return
	}
	e, ok := g.entry.heap["$iofail"]
	if !ok {
		return
	}
	g.oblige(back, fmt.Sprintf("iofail-keep/loop%d", ord), "", nil, fmt.Sprintf("(=> %s %s)", g.ghostGet(back, "$iofail"), e), pos,
		"no failed file-system modification is pending when the loop goes round again")
}

// proofSteps: "after <callee>[#k]: assert e" clauses of the function's contract whose call this statement holds are
// checked in the state after the statement and then available to everything that follows (a cut: the rest of the
// function is proved from the asserted fact, the fact from what precedes it).
func (g *FuncGen) proofSteps(s ast.Stmt, st *State) {
	if st == nil || len(g.inlineStack) > 0 || g.F.Spec == nil || len(g.F.Spec.Asserts) == 0 {
		return
	}
	var names []string
	ast.Inspect(s, func(n ast.Node) bool {
		switch c := n.(type) {
		case *ast.FuncLit:
			return false
		case *ast.CallExpr:
			if fn := g.calleeFunc(c); fn != nil {
				names = append(names, fn.Name())
			}
		}
		return true
	})
	for _, name := range names {
		if g.afterCount == nil {
			g.afterCount = map[string]int{}
		}
		k := g.afterCount[name]
		g.afterCount[name]++
		for _, a := range g.F.Spec.Asserts {
			if a.Callee != name || a.Ord != k {
				continue
			}
			env := g.invEnv(st, s.End()-1, nil)
			t := env.evalBool(a.Clause.Expr)
			label := a.Clause.Label
			if label == "" {
				label = fmt.Sprintf("%s#%d", name, k)
			}
			g.oblige(st, "assert", label, a.Clause.Tags, t, s.Pos(), a.Clause.Src)
			g.assume(st, t)
		}
	}
}
