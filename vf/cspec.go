package main

import (
	"fmt"
	"go/token"
	"go/types"
	"regexp"
	"sort"
	"strconv"
	"strings"

	"golang.org/x/tools/go/packages"
)

// CEnv: environment for evaluating a contract expression to an SMT term.
type CEnv struct {
	noRename bool
	g        *FuncGen
	pkg      *packages.Package // package whose scope resolves names and predicates
	st       *State
	old      *State
	names    map[string]Val
	scope    *types.Scope // innermost Go scope for local lookups (may be nil)
	pos      token.Pos
	depth    int
}

func (c *CEnv) with(names map[string]Val) *CEnv {
	n := *c
	n.names = map[string]Val{}
	for k, v := range c.names {
		n.names[k] = v
	}
	for k, v := range names {
		n.names[k] = v
	}
	return &n
}

func goTypeOfSort(s string) types.Type {
	switch s {
	case "Int":
		return types.Typ[types.Int]
	case "Bool":
		return types.Typ[types.Bool]
	case "Bytes":
		return types.Typ[types.String]
	case "(Sq Bytes)":
		return types.NewSlice(types.Typ[types.String])
	case "(Sq Int)":
		return types.NewSlice(types.Typ[types.Int])
	}
	return nil
}

type specSig struct {
	args []string
	res  string
}

var preludeSigs = map[string]specSig{}

var declFunRe = regexp.MustCompile(`^\(declare-fun ([A-Za-z0-9_]+) \(([^)]*)\) ([A-Za-z()\s]+)\)`)
var defineFunRe = regexp.MustCompile(`^\(define-fun(?:-rec)? ([A-Za-z0-9_]+) \(((?:\([a-z0-9_]+ [A-Za-z]+\)\s*)*)\) ([A-Za-z]+)`)

func loadPreludeSigs(text string) {
	for _, l := range strings.Split(text, "\n") {
		l = strings.TrimSpace(l)
		if strings.HasPrefix(l, "(declare-fun ") && strings.Contains(l, "(Sq ") {
			// argument sorts with parameters: "(declare-fun f ((Sq Bytes) Bytes) Bytes)"
			rest := strings.TrimPrefix(l, "(declare-fun ")
			sp := strings.IndexByte(rest, ' ')
			name, rest := rest[:sp], strings.TrimSpace(rest[sp:])
			depth, end := 0, -1
			for i, ch := range rest {
				if ch == '(' {
					depth++
				} else if ch == ')' {
					depth--
					if depth == 0 {
						end = i
						break
					}
				}
			}
			if end > 0 {
				var args []string
				inner := rest[1:end]
				for len(strings.TrimSpace(inner)) > 0 {
					inner = strings.TrimSpace(inner)
					if inner[0] == '(' {
						j := strings.IndexByte(inner, ')')
						args = append(args, inner[:j+1])
						inner = inner[j+1:]
					} else {
						j := strings.IndexByte(inner, ' ')
						if j < 0 {
							j = len(inner)
						}
						args = append(args, inner[:j])
						inner = inner[j:]
					}
				}
				res := strings.TrimSpace(strings.TrimSuffix(strings.TrimSpace(rest[end+1:]), ")"))
				preludeSigs[name] = specSig{args, res}
				continue
			}
		}
		if m := declFunRe.FindStringSubmatch(l); m != nil {
			preludeSigs[m[1]] = specSig{strings.Fields(m[2]), strings.TrimSpace(m[3])}
		} else if m := defineFunRe.FindStringSubmatch(l); m != nil {
			var args []string
			for _, p := range regexp.MustCompile(`\(([a-z0-9_]+) ([A-Za-z]+)\)`).FindAllStringSubmatch(m[2], -1) {
				args = append(args, p[2])
			}
			preludeSigs[m[1]] = specSig{args, m[3]}
		}
	}
}

func (c *CEnv) fail(format string, a ...interface{}) {
	c.g.fail("contract: "+format, a...)
}

func (c *CEnv) evalBool(e *CExpr) string {
	v := c.eval(e)
	if v.S != "Bool" {
		c.fail("expected Bool, got %s in %s", v.S, e.String())
	}
	return v.T
}

func (c *CEnv) resolveType(txt string) types.Type {
	txt = strings.TrimSpace(txt)
	switch {
	case strings.HasPrefix(txt, "*"):
		return types.NewPointer(c.resolveType(txt[1:]))
	case strings.HasPrefix(txt, "[]"):
		return types.NewSlice(c.resolveType(txt[2:]))
	}
	if i := strings.Index(txt, "."); i > 0 && !strings.ContainsAny(txt, "[]( ") {
		for _, imp := range c.pkg.Types.Imports() {
			if imp.Name() == txt[:i] {
				if o := imp.Scope().Lookup(txt[i+1:]); o != nil {
					return o.Type()
				}
			}
		}
		if pk, ok := c.g.P.Pkgs[txt[:i]]; ok {
			if o := pk.Types.Scope().Lookup(txt[i+1:]); o != nil {
				return o.Type()
			}
		}
		c.fail("cannot resolve type %q", txt)
	}
	tv, err := types.Eval(c.g.P.Fset, c.pkg.Types, token.NoPos, txt)
	if err != nil {
		c.fail("cannot resolve type %q: %v", txt, err)
	}
	return tv.Type
}

func (c *CEnv) lookupIdent(name string) (Val, bool) {
	if v, ok := c.names[name]; ok {
		return v, true
	}
	switch name {
	case "fs":
		return Val{c.g.ghostGet(c.st, "$fs"), nil, "FS"}, true
	case "stdout":
		return Val{c.g.ghostGet(c.st, "$out"), types.NewSlice(types.Typ[types.String]), "(Sq Bytes)"}, true
	}
	// locals of the function under verification
	if c.scope != nil {
		sc := c.scope
		for sc != nil {
			if o := sc.Lookup(name); o != nil {
				if vv, ok := o.(*types.Var); ok {
					if val, ok := c.st.vars[vv]; ok {
						return val, true
					}
					if vv.Parent() == vv.Pkg().Scope() {
						return c.g.globalGet(c.st, vv), true
					}
				}
				if cc, ok := o.(*types.Const); ok {
					if v, ok := c.g.constVal(types.TypeAndValue{Type: cc.Type(), Value: cc.Val()}); ok {
						return v, true
					}
				}
			}
			sc = sc.Parent()
		}
	}
	// variables of the state by name (locals whose scope we are not inside textually)
	var found *Val
	for o, v := range c.st.vars {
		if o.Name() == name {
			vv := v
			if found != nil && found.T != vv.T {
				c.fail("ambiguous local %s", name)
			}
			found = &vv
		}
	}
	if found != nil {
		return *found, true
	}
	// package scope
	if o := c.pkg.Types.Scope().Lookup(name); o != nil {
		switch ob := o.(type) {
		case *types.Const:
			if v, ok := c.g.constVal(types.TypeAndValue{Type: ob.Type(), Value: ob.Val()}); ok {
				return v, true
			}
		case *types.Var:
			return c.g.globalGet(c.st, ob), true
		}
	}
	// a variable of the function under verification that was renamed since the lock was taken (names.go)
	if !c.noRename {
		if nn, ok := c.g.P.Renames[c.g.F.Key][name]; ok && nn != name {
			cc := *c
			cc.noRename = true
			if v, ok := cc.lookupIdent(nn); ok {
				c.g.noteOnce(fmt.Sprintf("contract of %s mentions %s, which the function no longer has: read as %s (same position and type on the reference tree)", c.g.F.Key, name, nn))
				return v, true
			}
		}
	}
	return Val{}, false
}

func (c *CEnv) eval(e *CExpr) Val {
	g := c.g
	switch e.Op {
	case "int":
		n, err := strconv.ParseInt(e.Name, 0, 64)
		if err != nil {
			c.fail("bad integer %s", e.Name)
		}
		return Val{intLit(n), types.Typ[types.Int], "Int"}
	case "str":
		return Val{g.strLit(e.Name), types.Typ[types.String], "Bytes"}
	case "bool":
		return Val{e.Name, types.Typ[types.Bool], "Bool"}
	case "nil":
		return Val{"0", types.Typ[types.UntypedNil], "Int"}
	case "id":
		if v, ok := c.lookupIdent(e.Name); ok {
			return v
		}
		c.fail("unknown identifier %s (package %s)", e.Name, c.pkg.Types.Name())
	case "old":
		if c.old == nil {
			c.fail("old() without an old state")
		}
		n := *c
		n.st = c.old
		return n.eval(e.Args[0])
	case "un":
		v := c.eval(e.Args[0])
		if e.Name == "!" {
			return Val{"(not " + v.T + ")", v.Ty, "Bool"}
		}
		return Val{"(- " + v.T + ")", v.Ty, "Int"}
	case "bin":
		return c.evalBin(e)
	case "sel":
		// package-qualified?
		if e.Args[0].Op == "id" {
			if _, isVal := c.lookupIdent(e.Args[0].Name); !isVal {
				for _, imp := range c.pkg.Types.Imports() {
					if imp.Name() == e.Args[0].Name {
						o := imp.Scope().Lookup(e.Name)
						switch ob := o.(type) {
						case *types.Const:
							if v, ok := g.constVal(types.TypeAndValue{Type: ob.Type(), Value: ob.Val()}); ok {
								return v
							}
						case *types.Var:
							if isRepoPkg(ob.Pkg()) {
								return g.globalGet(c.st, ob)
							}
						}
						c.fail("unsupported qualified name %s.%s", e.Args[0].Name, e.Name)
					}
				}
			}
		}
		base := c.eval(e.Args[0])
		if base.Ty == nil {
			c.fail("selector %s on untyped value", e.Name)
		}
		obj, path, _ := types.LookupFieldOrMethod(base.Ty, true, c.pkg.Types, e.Name)
		fv, ok := obj.(*types.Var)
		if !ok || fv == nil {
			// unexported field of another package: search manually
			if v, ok := c.fieldByName(base, e.Name); ok {
				return v
			}
			c.fail("no field %s in %v", e.Name, base.Ty)
		}
		g.quiet++
		cur := base
		for _, idx := range path {
			cur = g.fieldRead(c.st, cur, idx, token.NoPos, "")
		}
		g.quiet--
		return cur
	case "idx":
		base := c.eval(e.Args[0])
		i := c.eval(e.Args[1])
		switch {
		case base.S == "Bytes":
			return Val{fmt.Sprintf("(bat %s %s)", base.T, i.T), types.Typ[types.Uint8], "Int"}
		case strings.HasPrefix(base.S, "(Sq "):
			et := elemType(base.Ty)
			return Val{fmt.Sprintf("(select (selems %s) %s)", base.T, i.T), et, base.S[4 : len(base.S)-1]}
		}
		if base.S == "FS" {
			return Val{fmt.Sprintf("(select %s %s)", base.T, i.T), nil, "FNode"}
		}
		if m, ok := types.Unalias(base.Ty).Underlying().(*types.Map); ok {
			_, val := g.mapArrays(c.st, m)
			return Val{fmt.Sprintf("(select (select %s %s) %s)", val, base.T, i.T), m.Elem(), sortOf(m.Elem())}
		}
		c.fail("index on %s", base.S)
	case "slice":
		base := c.eval(e.Args[0])
		lo := "0"
		if e.Args[1] != nil {
			lo = c.eval(e.Args[1]).T
		}
		if base.S == "Bytes" {
			hi := fmt.Sprintf("(blen %s)", base.T)
			if e.Args[2] != nil {
				hi = c.eval(e.Args[2]).T
			}
			return Val{fmt.Sprintf("(bsub %s %s %s)", base.T, lo, hi), base.Ty, "Bytes"}
		}
		if strings.HasPrefix(base.S, "(Sq ") && lo == "0" && e.Args[2] != nil {
			return Val{fmt.Sprintf("(mkseq %s (selems %s))", c.eval(e.Args[2]).T, base.T), base.Ty, base.S}
		}
		c.fail("unsupported slice in contract")
	case "forall", "exists":
		names := map[string]Val{}
		var decl []string
		var guards []string
		for _, b := range e.Binders {
			ty := c.resolveType(b.Type)
			s := sortOf(ty)
			g.nfresh++
			n := fmt.Sprintf("q_%s_%d", sanitize(b.Name), g.nfresh)
			names[b.Name] = Val{n, ty, s}
			decl = append(decl, fmt.Sprintf("(%s %s)", n, s))
			if lo, hi, ok := intRange(ty); ok && ty.Underlying().(*types.Basic).Kind() != types.Int {
				guards = append(guards, fmt.Sprintf("(<= %s %s) (<= %s %s)", lo, n, n, hi))
			}
		}
		inner := c.with(names)
		g.noFacts++
		body := inner.evalBool(e.Args[0])
		g.noFacts--
		if len(guards) > 0 {
			if e.Op == "forall" {
				body = fmt.Sprintf("(=> (and %s) %s)", strings.Join(guards, " "), body)
			} else {
				body = fmt.Sprintf("(and %s %s)", strings.Join(guards, " "), body)
			}
		}
		if len(e.Trig) > 0 {
			var ts []string
			g.noFacts++
			for _, t := range e.Trig {
				ts = append(ts, inner.eval(t).T)
			}
			g.noFacts--
			body = fmt.Sprintf("(! %s :pattern (%s))", body, strings.Join(ts, " "))
		}
		return Val{fmt.Sprintf("(%s (%s) %s)", e.Op, strings.Join(decl, " "), body), types.Typ[types.Bool], "Bool"}
	case "call":
		return c.evalCall(e)
	}
	c.fail("unsupported contract expression %s", e.String())
	return Val{}
}

func (c *CEnv) fieldByName(base Val, name string) (Val, bool) {
	_, s, ok := structOf(base.Ty)
	if !ok {
		return Val{}, false
	}
	for i := 0; i < s.NumFields(); i++ {
		if s.Field(i).Name() == name {
			c.g.quiet++
			v := c.g.fieldRead(c.st, base, i, token.NoPos, "")
			c.g.quiet--
			return v, true
		}
	}
	return Val{}, false
}

func (c *CEnv) evalBin(e *CExpr) Val {
	boolT := types.Typ[types.Bool]
	switch e.Name {
	case "==>":
		return Val{fmt.Sprintf("(=> %s %s)", c.evalBool(e.Args[0]), c.evalBool(e.Args[1])), boolT, "Bool"}
	case "<==>":
		return Val{fmt.Sprintf("(= %s %s)", c.evalBool(e.Args[0]), c.evalBool(e.Args[1])), boolT, "Bool"}
	case "&&":
		return Val{fmt.Sprintf("(and %s %s)", c.evalBool(e.Args[0]), c.evalBool(e.Args[1])), boolT, "Bool"}
	case "||":
		return Val{fmt.Sprintf("(or %s %s)", c.evalBool(e.Args[0]), c.evalBool(e.Args[1])), boolT, "Bool"}
	}
	if e.Name == "+" {
		// flatten a chain of + so that byte-string concatenations come out right-nested (as the lowering produces them)
		var ops []*CExpr
		var flat func(x *CExpr)
		flat = func(x *CExpr) {
			if x.Op == "bin" && x.Name == "+" {
				flat(x.Args[0])
				flat(x.Args[1])
				return
			}
			ops = append(ops, x)
		}
		flat(e)
		vals := make([]Val, len(ops))
		for i, o := range ops {
			vals[i] = c.eval(o)
		}
		if vals[0].S == "Bytes" {
			t := vals[len(vals)-1].T
			for i := len(vals) - 2; i >= 0; i-- {
				if vals[i].S != "Bytes" {
					c.fail("sort mismatch in concatenation %s", e.String())
				}
				t = fmt.Sprintf("(bcat %s %s)", vals[i].T, t)
			}
			return Val{t, vals[0].Ty, "Bytes"}
		}
		t := vals[0].T
		for _, v := range vals[1:] {
			if v.S != "Int" {
				c.fail("sort mismatch in sum %s", e.String())
			}
			t = fmt.Sprintf("(+ %s %s)", t, v.T)
		}
		return Val{t, vals[0].Ty, "Int"}
	}
	l := c.eval(e.Args[0])
	r := c.eval(e.Args[1])
	if l.S != r.S {
		c.fail("sort mismatch %s vs %s in %s", l.S, r.S, e.String())
	}
	switch e.Name {
	case "==":
		return Val{fmt.Sprintf("(= %s %s)", l.T, r.T), boolT, "Bool"}
	case "!=":
		return Val{fmt.Sprintf("(not (= %s %s))", l.T, r.T), boolT, "Bool"}
	case "<", "<=", ">", ">=":
		if l.S == "Bytes" {
			return Val{fmt.Sprintf("(%s (rank %s) (rank %s))", e.Name, l.T, r.T), boolT, "Bool"}
		}
		return Val{fmt.Sprintf("(%s %s %s)", e.Name, l.T, r.T), boolT, "Bool"}
	case "+":
		if l.S == "Bytes" {
			return Val{fmt.Sprintf("(bcat %s %s)", l.T, r.T), l.Ty, "Bytes"}
		}
		return Val{fmt.Sprintf("(+ %s %s)", l.T, r.T), l.Ty, "Int"}
	case "-":
		return Val{fmt.Sprintf("(- %s %s)", l.T, r.T), l.Ty, "Int"}
	case "*":
		return Val{fmt.Sprintf("(* %s %s)", l.T, r.T), l.Ty, "Int"}
	case "/":
		return Val{fmt.Sprintf("(tdiv %s %s)", l.T, r.T), l.Ty, "Int"}
	case "%":
		return Val{fmt.Sprintf("(tmod %s %s)", l.T, r.T), l.Ty, "Int"}
	}
	c.fail("unsupported operator %s", e.Name)
	return Val{}
}

func (c *CEnv) evalCall(e *CExpr) Val {
	g := c.g
	boolT := types.Typ[types.Bool]
	arg := func(i int) Val { return c.eval(e.Args[i]) }
	switch e.Name {
	case "match":
		if m, ok := c.names["$match"]; ok {
			return m
		}
		c.fail("match() outside a regexp characterisation")
	case "rdPos":
		return Val{fmt.Sprintf("(select %s %s)", g.ghostGet(c.st, "$rdpos"), arg(0).T), types.Typ[types.Int], "Int"}
	case "hashData":
		return Val{fmt.Sprintf("(select %s %s)", g.ghostGet(c.st, "$hashdata"), arg(0).T), types.Typ[types.String], "Bytes"}
	case "scRest":
		return Val{fmt.Sprintf("(select %s %s)", g.ghostGet(c.st, "$screst"), arg(0).T), types.Typ[types.String], "Bytes"}
	case "callCount":
		return Val{fmt.Sprintf("(select %s %s)", g.ghostGet(c.st, "$calls"), arg(0).T), types.Typ[types.Int], "Int"}
	case "scTok":
		return Val{fmt.Sprintf("(select %s %s)", g.ghostGet(c.st, "$sctok"), arg(0).T), types.Typ[types.String], "Bytes"}
	case "len":
		v := arg(0)
		switch {
		case v.S == "Bytes":
			return Val{fmt.Sprintf("(blen %s)", v.T), types.Typ[types.Int], "Int"}
		case strings.HasPrefix(v.S, "(Sq "):
			return Val{fmt.Sprintf("(slen %s)", v.T), types.Typ[types.Int], "Int"}
		}
		c.fail("len of %s", v.S)
	case "string", "bytes":
		v := arg(0)
		return Val{v.T, types.Typ[types.String], v.S}
	case "int", "int64":
		v := arg(0)
		return Val{v.T, types.Typ[types.Int], "Int"}
	case "uint16":
		return Val{fmt.Sprintf("(mod %s 65536)", arg(0).T), types.Typ[types.Uint16], "Int"}
	case "uint32":
		return Val{fmt.Sprintf("(mod %s 4294967296)", arg(0).T), types.Typ[types.Uint32], "Int"}
	case "fresh":
		v := arg(0)
		if c.old == nil {
			c.fail("fresh() without old state")
		}
		return Val{fmt.Sprintf("(and (not (= %s 0)) (not (select %s %s)))", v.T, c.old.heap["$alloc"], v.T), boolT, "Bool"}
	case "ite":
		cnd, a, b := arg(0), arg(1), arg(2)
		return Val{fmt.Sprintf("(ite %s %s %s)", cnd.T, a.T, b.T), a.Ty, a.S}
	case "mapHas":
		m, k := arg(0), arg(1)
		mt, ok := types.Unalias(m.Ty).Underlying().(*types.Map)
		if !ok {
			c.fail("mapHas on non-map")
		}
		has, _ := g.mapArrays(c.st, mt)
		return Val{fmt.Sprintf("(and (not (= %s 0)) (select (select %s %s) %s))", m.T, has, m.T, k.T), boolT, "Bool"}
	case "mapGet":
		m, k := arg(0), arg(1)
		mt, ok := types.Unalias(m.Ty).Underlying().(*types.Map)
		if !ok {
			c.fail("mapGet on non-map")
		}
		_, val := g.mapArrays(c.st, mt)
		return Val{fmt.Sprintf("(select (select %s %s) %s)", val, m.T, k.T), mt.Elem(), sortOf(mt.Elem())}
	case "reMatches":
		// reMatches(v, s): the package-level constant regexp v matches s (the predicate v.MatchString(s) is lowered to)
		if len(e.Args) != 2 || e.Args[0].Op != "id" {
			c.fail("reMatches(<package-level regexp>, s)")
		}
		obj := c.pkg.Types.Scope().Lookup(e.Args[0].Name)
		if obj == nil {
			c.fail("reMatches: no package-level variable %s", e.Args[0].Name)
		}
		fn := "reMatch_" + pkgShort(c.pkg.Types) + "_" + obj.Name()
		g.declFun(fn, []string{"Bytes"}, "Bool")
		return Val{fmt.Sprintf("(%s %s)", fn, arg(1).T), boolT, "Bool"}
	case "seqAppend":
		// the sequence append(s, x) builds
		a, x := arg(0), arg(1)
		if !strings.HasPrefix(a.S, "(Sq ") {
			c.fail("seqAppend on %s", a.S)
		}
		return Val{fmt.Sprintf("(mkseq (+ (slen %s) 1) (store (selems %s) (slen %s) %s))", a.T, a.T, a.T, x.T), a.Ty, a.S}
	case "emptyStrings":
		// the empty sequence of strings / byte strings
		return Val{zeroOf("(Sq Bytes)"), types.NewSlice(types.Typ[types.String]), "(Sq Bytes)"}
	case "emptyLike":
		// the empty (nil) sequence of the argument's type
		a := arg(0)
		return Val{zeroOf(a.S), a.Ty, a.S}
	case "seqEq":
		// extensional equality of two sequences
		a, b := arg(0), arg(1)
		g.nfresh++
		q := fmt.Sprintf("q_k_%d", g.nfresh)
		return Val{fmt.Sprintf("(and (= (slen %s) (slen %s)) (forall ((%s Int)) (=> (and (<= 0 %s) (< %s (slen %s))) (= (select (selems %s) %s) (select (selems %s) %s)))))",
			a.T, b.T, q, q, q, a.T, a.T, q, b.T, q), boolT, "Bool"}
	}
	// ghost function of this package
	if ps := g.P.Specs[pkgShort(c.pkg.Types)]; ps != nil {
		if gh, ok := ps.Ghosts[e.Name]; ok {
			return c.applyGhost(c.pkg, gh, e)
		}
	}
	if i := strings.Index(e.Name, "."); i > 0 {
		if ps := g.P.Specs[e.Name[:i]]; ps != nil {
			if gh, ok := ps.Ghosts[e.Name[i+1:]]; ok {
				return c.applyGhost(g.P.Pkgs[e.Name[:i]], gh, e)
			}
		}
	}
	// predicate macro
	if ps := g.P.Specs[pkgShort(c.pkg.Types)]; ps != nil {
		if p, ok := ps.Preds[e.Name]; ok {
			if g.axiomHeap == nil {
				g.emitGhostAxioms(c.pkg, e.Name) // axioms stated about this predicate
			}
			return c.expandPred(p, e)
		}
	}
	// predicate of another package: pkg.pred(...)
	if i := strings.Index(e.Name, "."); i > 0 {
		if ps := g.P.Specs[e.Name[:i]]; ps != nil {
			if p, ok := ps.Preds[e.Name[i+1:]]; ok {
				n := *c
				n.pkg = g.P.Pkgs[e.Name[:i]]
				if g.axiomHeap == nil {
					g.emitGhostAxioms(n.pkg, e.Name[i+1:])
				}
				return n.expandPredArgs(p, e, c)
			}
		}
	}
	// prelude function
	if sig, ok := preludeSigs[e.Name]; ok {
		if len(sig.args) != len(e.Args) {
			c.fail("%s expects %d arguments", e.Name, len(sig.args))
		}
		var ts []string
		for i := range e.Args {
			v := arg(i)
			if v.S != sig.args[i] {
				c.fail("%s: argument %d has sort %s, want %s", e.Name, i, v.S, sig.args[i])
			}
			ts = append(ts, v.T)
		}
		t := "(" + e.Name + " " + strings.Join(ts, " ") + ")"
		if len(ts) == 0 {
			t = e.Name
		}
		return Val{t, goTypeOfSort(sig.res), sig.res}
	}
	c.fail("unknown spec function %s", e.Name)
	return Val{}
}

func (c *CEnv) expandPred(p *Pred, e *CExpr) Val {
	return c.expandPredArgs(p, e, c)
}

func (c *CEnv) expandPredArgs(p *Pred, e *CExpr, argEnv *CEnv) Val {
	if len(p.Params) != len(e.Args) {
		c.fail("predicate %s expects %d arguments", p.Name, len(p.Params))
	}
	if c.depth > 20 {
		c.fail("predicate expansion too deep (%s)", p.Name)
	}
	names := map[string]Val{}
	for i, a := range e.Args {
		names[p.Params[i]] = argEnv.eval(a)
	}
	n := *c
	n.names = names // predicates are closed: only their parameters (plus globals) are visible
	n.scope = nil
	n.depth = c.depth + 1
	// hide locals of the surrounding function
	inner := &n
	st := *c.st
	inner.st = &State{vars: map[types.Object]Val{}, heap: st.heap, pc: st.pc}
	if c.old != nil {
		inner.old = &State{vars: map[types.Object]Val{}, heap: c.old.heap, pc: c.old.pc}
	}
	v := inner.eval(p.Body)
	// heap arrays first touched inside the predicate must stay visible to the caller's state
	for k, h := range inner.st.heap {
		if _, ok := c.st.heap[k]; !ok {
			c.st.heap[k] = h
		}
	}
	return v
}

// ---------- ghost functions ----------

func ghostSym(pkg string, name string) string { return "gh_" + pkg + "_" + name }

func (c *CEnv) ghostReadKeys(pk *packages.Package, gh *Ghost) []string {
	var keys []string
	fi := &FuncInfo{Pkg: pk}
	for _, r := range gh.Reads {
		keys = append(keys, c.g.resolveModKey(fi, r))
	}
	return keys
}

func (c *CEnv) applyGhost(pk *packages.Package, gh *Ghost, e *CExpr) Val {
	g := c.g
	short := pkgShort(pk.Types)
	if len(e.Args) != len(gh.Params) {
		c.fail("ghost %s expects %d arguments", gh.Name, len(gh.Params))
	}
	pe := *c
	pe.pkg = pk
	var argSorts, args []string
	for _, k := range c.ghostReadKeys(pk, gh) {
		fs, ok := g.P.fieldSort(k)
		if !ok {
			c.fail("ghost %s reads unknown field %s", gh.Name, k)
		}
		argSorts = append(argSorts, "(Array Int "+fs+")")
		args = append(args, g.heapGet(c.st, k, fs))
	}
	for i, b := range gh.Params {
		ty := pe.resolveType(b.Type)
		v := c.eval(e.Args[i])
		if v.S != sortOf(ty) {
			c.fail("ghost %s: argument %s has sort %s, want %s", gh.Name, b.Name, v.S, sortOf(ty))
		}
		argSorts = append(argSorts, v.S)
		args = append(args, v.T)
	}
	rt := pe.resolveType(gh.Result)
	sym := ghostSym(short, gh.Name)
	if g.declSeen[sym] && g.lemmaPkg != "" {
		// while the lemmas of a package are proved in turn, each one may use the lemmas stated before it: those about
		// a ghost function already declared for an earlier lemma are emitted now
		g.emitGhostAxioms(pk, gh.Name)
	}
	if !g.declSeen[sym] {
		g.declFun(sym, argSorts, sortOf(rt))
		g.emitGhostAxioms(pk, gh.Name)
	}
	return Val{"(" + sym + " " + strings.Join(args, " ") + ")", rt, sortOf(rt)}
}

// cexprHasCall: does the expression apply any named function (predicate, ghost, spec function)?
func cexprHasCall(e *CExpr) bool {
	if e == nil {
		return false
	}
	if e.Op == "call" {
		return true
	}
	for _, a := range e.Args {
		if cexprHasCall(a) {
			return true
		}
	}
	return false
}

func cexprMentions(e *CExpr, name string) bool {
	if e == nil {
		return false
	}
	if e.Op == "call" && (e.Name == name || strings.HasSuffix(e.Name, "."+name)) {
		return true
	}
	for _, a := range e.Args {
		if cexprMentions(a, name) {
			return true
		}
	}
	for _, t := range e.Trig {
		if cexprMentions(t, name) {
			return true
		}
	}
	return false
}

// emitGhostAxioms emits (once) every axiom of the package that mentions the ghost function.
func (g *FuncGen) emitGhostAxioms(pk *packages.Package, name string) {
	ps := g.P.Specs[pkgShort(pk.Types)]
	if ps == nil {
		return
	}
	for i, ax := range ps.Axioms {
		// an axiom or lemma over operators only (no predicate, ghost or spec function named) belongs to every use of the package's contracts
		if !cexprMentions(ax.Expr, name) && cexprHasCall(ax.Expr) {
			continue
		}
		key := fmt.Sprintf("axiom:%s:%d", pkgShort(pk.Types), i)
		if g.declSeen[key] {
			continue
		}
		// a hidden definition is available to the lemmas of its package and to the functions that reveal it
		if ax.Opaque && g.lemmaPkg == "" {
			revealed := false
			if g.F.Spec != nil {
				for _, r := range g.F.Spec.Reveals {
					revealed = revealed || r == ax.Label || r == pkgShort(pk.Types)+"."+ax.Label
				}
			}
			if !revealed {
				continue
			}
		}
		// while a lemma is being proved, it and everything stated after it in its package is not available
		if g.lemmaPkg == pkgShort(pk.Types) && i >= g.lemmaIdx {
			continue
		}
		g.declSeen[key] = true
		g.emitAxiom(pk, ax)
	}
}

// emitAxiom: the axiom holds for every heap: heap arrays read inside become universally quantified.
func (g *FuncGen) emitAxiom(pk *packages.Package, ax *Axiom) {
	f := g.axiomFormula(pk, ax)
	g.emit("(assert " + f + ")")
	if ax.Lemma {
		g.notes = append(g.notes, fmt.Sprintf("lemma %s.%s (proved: obligation %s.lemmas#lemma[%s])", pkgShort(pk.Types), ax.Label, pkgShort(pk.Types), ax.Label))
	} else {
		g.notesAxiom(pkgShort(pk.Types), ax)
	}
}

// axiomFormula: the closed formula of an axiom or lemma (heap arrays read inside are universally quantified).
func (g *FuncGen) axiomFormula(pk *packages.Package, ax *Axiom) string {
	saveAx := g.axiomHeap
	g.axiomHeap = map[string]string{}
	defer func() { g.axiomHeap = saveAx }()
	st := &State{vars: map[types.Object]Val{}, heap: map[string]string{"$alloc": "QH_alloc"}, pc: "true"}
	env := &CEnv{g: g, pkg: pk, st: st, old: st, names: map[string]Val{}}
	e := ax.Expr
	var binders []string
	body := ""
	if e.Op == "forall" {
		names := map[string]Val{}
		var guards []string
		for _, b := range e.Binders {
			ty := env.resolveType(b.Type)
			s := sortOf(ty)
			g.nfresh++
			n := fmt.Sprintf("q_%s_%d", sanitize(b.Name), g.nfresh)
			names[b.Name] = Val{n, ty, s}
			binders = append(binders, fmt.Sprintf("(%s %s)", n, s))
			if lo, hi, ok := intRange(ty); ok && ty.Underlying().(*types.Basic).Kind() != types.Int {
				guards = append(guards, fmt.Sprintf("(<= %s %s) (<= %s %s)", lo, n, n, hi))
			}
		}
		inner := env.with(names)
		body = inner.evalBool(e.Args[0])
		if len(guards) > 0 {
			body = fmt.Sprintf("(=> (and %s) %s)", strings.Join(guards, " "), body)
		}
		if len(e.Trig) > 0 {
			var ts []string
			for _, t := range e.Trig {
				ts = append(ts, inner.eval(t).T)
			}
			body = fmt.Sprintf("(! %s :pattern (%s))", body, strings.Join(ts, " "))
		}
	} else {
		body = env.evalBool(e)
	}
	var hk []string
	for k := range g.axiomHeap {
		hk = append(hk, k)
	}
	sort.Strings(hk)
	var hb []string
	for _, k := range hk {
		hb = append(hb, fmt.Sprintf("(%s %s)", "QH_"+sanitize(k), g.axiomHeap[k]))
	}
	all := append(hb, binders...)
	if len(all) == 0 {
		return body
	}
	return fmt.Sprintf("(forall (%s) %s)", strings.Join(all, " "), body)
}

func (g *FuncGen) notesAxiom(pkg string, ax *Axiom) {
	g.notes = append(g.notes, fmt.Sprintf("ghost axiom %s.%s (assumed): %s", pkg, ax.Label, ax.Src))
}
