package main

import (
	"context"
	_ "embed"
	"fmt"
	"os"
	"os/exec"
	"path/filepath"
	"strings"
	"sync"
	"time"
)

//go:embed theory/prelude_sig.smt2
var preludeSig string

//go:embed theory/prelude_ax.smt2
var preludeAx string

type solverDef struct {
	name string
	cmd  func(file string, timeoutS int) []string
}

var solvers = []solverDef{
	{"z3-5.1.0", func(f string, t int) []string { return []string{"z3-new", "-smt2", fmt.Sprintf("-T:%d", t), f} }},
	{"z3-4.8.12", func(f string, t int) []string { return []string{"z3", "-smt2", fmt.Sprintf("-T:%d", t), f} }},
	{"cvc5-1.0", func(f string, t int) []string { return []string{"cvc5", fmt.Sprintf("--tlimit=%d", t*1000), f} }},
}

type solveResult struct {
	status string
	out    string
	secs   float64
}

func runSolver(sd solverDef, file string, timeoutS int) solveResult {
	return runSolverCtx(context.Background(), sd, file, timeoutS)
}

func runSolverCtx(parent context.Context, sd solverDef, file string, timeoutS int) solveResult {
	ctx, cancel := context.WithTimeout(parent, time.Duration(timeoutS+2)*time.Second)
	defer cancel()
	args := sd.cmd(file, timeoutS)
	t0 := time.Now()
	out, _ := exec.CommandContext(ctx, args[0], args[1:]...).CombinedOutput()
	secs := time.Since(t0).Seconds()
	first := ""
	for _, l := range strings.Split(string(out), "\n") {
		// a solver's warnings (about a pattern, say) precede its answer
		if l = strings.TrimSpace(l); l != "" && !strings.HasPrefix(l, "WARNING") {
			first = l
			break
		}
	}
	status := "error"
	switch {
	case first == "unsat" || first == "sat" || first == "unknown":
		status = first
	case strings.Contains(first, "timeout") || ctx.Err() != nil || first == "":
		status = "timeout"
	case strings.Contains(string(out), "interrupted"):
		status = "timeout"
	}
	return solveResult{status, string(out), secs}
}

type Solver struct {
	dir      string
	timeoutS int
	all      bool // thorough: run every solver and require agreement
	noSplit  bool // retry mode: do not attempt case analysis again
	cacheDir string
	prelude  string // signature + struct declarations + axioms
	lean     string // signature + struct declarations only: candidate-model search for failed obligations
	mu       sync.Mutex
	stats    map[string]int
	timeS    float64
}

func newSolver(timeoutS int, all bool) (*Solver, error) {
	d, err := os.MkdirTemp("/var/tmp", "vf.")
	if err != nil {
		return nil, err
	}
	s := &Solver{dir: d, timeoutS: timeoutS, all: all, stats: map[string]int{}}
	if os.Getenv("VF_NOCACHE") == "" {
		s.cacheDir = "/verif/.cache"
		os.MkdirAll(s.cacheDir, 0o755)
	}
	return s, nil
}

func (s *Solver) close() { os.RemoveAll(s.dir) }

// solve discharges one obligation; fills Status/Solver/TimeS/Outputs.
func (s *Solver) solve(o *Obligation, g *FuncGen) {
	query := g.vcText(o, s.prelude)
	if o.Kind == "cover" {
		s.solveCover(o, query)
		return
	}
	key := hashText(query + fmt.Sprint(s.all, s.timeoutS))
	if s.cacheDir != "" {
		if b, err := os.ReadFile(filepath.Join(s.cacheDir, key)); err == nil {
			parts := strings.SplitN(string(b), "\n", 3)
			if len(parts) >= 2 {
				o.Status, o.Solver = parts[0], parts[1]+" (cached)"
				if len(parts) == 3 {
					o.Model = parts[2]
				}
				s.mu.Lock()
				s.stats[parts[1]]++
				s.mu.Unlock()
				return
			}
		}
	}
	file := filepath.Join(s.dir, sanitize(o.Name)+"_"+key[:8]+".smt2")
	os.WriteFile(file, []byte(query), 0o644)
	defer os.Remove(file)
	o.Outputs = map[string]string{}
	record := func(sd solverDef, r solveResult) {
		o.Outputs[sd.name] = fmt.Sprintf("%s (%.2fs)", r.status, r.secs)
		s.mu.Lock()
		s.timeS += r.secs
		s.mu.Unlock()
	}
	final := func(status, solver string) {
		o.Status, o.Solver = status, solver
		s.mu.Lock()
		s.stats[solver]++
		s.mu.Unlock()
		if s.cacheDir != "" && (status == "unsat" || status == "sat") {
			os.WriteFile(filepath.Join(s.cacheDir, key), []byte(status+"\n"+solver+"\n"+o.Model), 0o644)
		}
	}
	t0 := time.Now()
	defer func() { o.TimeS = time.Since(t0).Seconds() }()
	if s.all {
		var verdicts []string
		var who []string
		for _, sd := range solvers {
			r := runSolver(sd, file, s.timeoutS)
			record(sd, r)
			if r.status == "sat" || r.status == "unsat" {
				verdicts = append(verdicts, r.status)
				who = append(who, sd.name)
			}
		}
		if len(verdicts) == 0 {
			final("unknown", "none")
			return
		}
		for _, v := range verdicts[1:] {
			if v != verdicts[0] {
				final("error", "solvers disagree: "+strings.Join(who, ",")+" "+strings.Join(verdicts, ","))
				return
			}
		}
		if verdicts[0] == "sat" {
			o.Model = s.model(file, g.vcText(o, s.lean))
		}
		final(verdicts[0], strings.Join(who, "+"))
		return
	}
	// hint from the lock file: go straight to the strategy that discharged this obligation on the reference tree
	if o.Hint == "case-split" {
		if s.caseSplit(o, g, query, file) {
			final("unsat", "case-split")
			return
		}
	} else if o.Hint != "" && o.Hint != solvers[0].name {
		for _, sd := range solvers {
			if sd.name == o.Hint {
				r := runSolver(sd, file, s.timeoutS)
				record(sd, r)
				if r.status == "unsat" {
					final("unsat", sd.name)
					return
				}
			}
		}
	}
	// quick: all three solvers race; the first definite answer wins and the others are cancelled
	ctx, cancelAll := context.WithCancel(context.Background())
	type sr struct {
		i int
		r solveResult
	}
	ch := make(chan sr, len(solvers))
	for i := range solvers {
		go func(i int) { ch <- sr{i, runSolverCtx(ctx, solvers[i], file, s.timeoutS)} }(i)
	}
	var r solveResult
	decided := false
	for n := 0; n < len(solvers); n++ {
		x := <-ch
		if decided {
			continue
		}
		record(solvers[x.i], x.r)
		if x.i == 0 {
			r = x.r
		}
		if x.r.status == "unsat" {
			decided = true
			cancelAll()
			final("unsat", solvers[x.i].name)
		} else if x.r.status == "sat" {
			decided = true
			cancelAll()
			o.Model = s.model(file, g.vcText(o, s.lean))
			final("sat", solvers[x.i].name)
		}
	}
	cancelAll()
	if decided {
		return
	}
	if o.Hint != "case-split" && !s.noSplit && s.caseSplit(o, g, query, file) {
		final("unsat", "case-split")
		return
	}
	st := "unknown"
	if r.status == "timeout" {
		st = "timeout"
	}
	// candidate model under the lean prelude (axioms dropped): a hint for the replay, not a verdict
	o.Model = s.model(file, g.vcText(o, s.lean))
	final(st, "none")
}

// model asks z3 5.1 for a model of a satisfiable query.
func (s *Solver) model(file, query string) string {
	mf := file + ".model.smt2"
	os.WriteFile(mf, []byte(query+"(get-model)\n"), 0o644)
	defer os.Remove(mf)
	r := runSolver(solvers[0], mf, 5)
	if r.status != "sat" {
		r = runSolver(solvers[1], mf, 5)
	}
	if r.status != "sat" {
		return ""
	}
	out := r.out
	if len(out) > 20000 {
		out = out[:20000] + "\n...(truncated)"
	}
	return out
}

// solveAll discharges obligations in parallel.
func (s *Solver) solveAll(gens []*FuncGen, only func(*Obligation) bool) {
	type job struct {
		g *FuncGen
		o *Obligation
	}
	jobs := make(chan job)
	var wg sync.WaitGroup
	for i := 0; i < 16; i++ {
		wg.Add(1)
		go func() {
			defer wg.Done()
			for j := range jobs {
				s.solve(j.o, j.g)
			}
		}()
	}
	for _, g := range gens {
		for _, o := range g.obls {
			if only != nil && !only(o) {
				continue
			}
			jobs <- job{g, o}
		}
	}
	close(jobs)
	wg.Wait()
}

// solveCover: a reachability cover passes unless the hypotheses are refuted (unsat) quickly.
func (s *Solver) solveCover(o *Obligation, query string) {
	file := filepath.Join(s.dir, sanitize(o.Name)+"_cover.smt2")
	os.WriteFile(file, []byte(query), 0o644)
	defer os.Remove(file)
	r := runSolver(solvers[0], file, 2)
	o.Outputs = map[string]string{solvers[0].name: fmt.Sprintf("%s (%.2fs)", r.status, r.secs)}
	o.Status, o.Solver, o.TimeS = r.status, solvers[0].name, r.secs
	s.mu.Lock()
	s.timeS += r.secs
	s.mu.Unlock()
}

// caseSplit: case analysis over the merged control-flow paths (sound: the alternatives cover the path condition).
func (s *Solver) caseSplit(o *Obligation, g *FuncGen, query, file string) bool {
	cases := g.pcCases(o.pc, 24)
	if len(cases) <= 1 {
		return false
	}
	for ci, cs := range cases {
		var sb strings.Builder
		for _, p := range cs {
			sb.WriteString("(assert " + p + ")\n")
		}
		q := strings.Replace(query, "(check-sat)\n", sb.String()+"(check-sat)\n", 1)
		cf := fmt.Sprintf("%s.case%d.smt2", file, ci)
		os.WriteFile(cf, []byte(q), 0o644)
		st, _ := s.race(cf, nil)
		os.Remove(cf)
		if st != "unsat" {
			return false
		}
	}
	if o.Outputs == nil {
		o.Outputs = map[string]string{}
	}
	o.Outputs["case-split"] = fmt.Sprintf("unsat in each of %d cases", len(cases))
	return true
}

// race runs all solvers concurrently on one file; the first definite answer wins.
func (s *Solver) race(file string, record func(solverDef, solveResult)) (string, string) {
	ctx, cancelAll := context.WithCancel(context.Background())
	defer cancelAll()
	type sr struct {
		i int
		r solveResult
	}
	ch := make(chan sr, len(solvers))
	for i := range solvers {
		go func(i int) { ch <- sr{i, runSolverCtx(ctx, solvers[i], file, s.timeoutS)} }(i)
	}
	status, who := "unknown", "none"
	decided := false
	for n := 0; n < len(solvers); n++ {
		x := <-ch
		if decided {
			continue
		}
		s.mu.Lock()
		s.timeS += x.r.secs
		s.mu.Unlock()
		if record != nil {
			record(solvers[x.i], x.r)
		}
		if x.r.status == "unsat" || x.r.status == "sat" {
			decided = true
			status, who = x.r.status, solvers[x.i].name
			cancelAll()
		} else if x.r.status == "timeout" && status == "unknown" {
			status = "timeout"
		}
	}
	return status, who
}
