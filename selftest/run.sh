#!/bin/bash
# Must-fail corpus: each line of mutants.tsv is  name <TAB> file <TAB> perl-substitution <TAB> functions <TAB> expected failing obligation (substring)
# The mutation is applied to a scratch copy of /repo (outside /repo and /verif), vf is run on the named functions,
# and the expected obligation must be reported as failed. Exit 1 if any mutant survives.
set -u
cd "$(dirname "$0")"
SCR=$(mktemp -d /var/tmp/vfmut.XXXXXX)
trap 'rm -rf "$SCR"' EXIT
fail=0; n=0
only="${1:-}"
while IFS=$'\t' read -r name file subst funcs expect; do
  [ -z "$name" ] && continue
  case "$name" in \#*) continue;; esac
  if [ -n "$only" ] && [[ "$name" != *"$only"* ]]; then continue; fi
  if [ -n "${MUTANT_FUNCS:-}" ]; then
    hit=0
    IFS=',' read -ra FS_ <<< "$funcs"
    for f_ in "${FS_[@]}"; do case ",$MUTANT_FUNCS," in *",$f_,"*) hit=1;; esac; done
    [ $hit = 1 ] || continue
  fi
  n=$((n+1))
  rm -rf "$SCR/repo"; mkdir -p "$SCR/repo"
  rsync -a --exclude .git /repo/ "$SCR/repo/"
  before=$(sha1sum "$SCR/repo/$file" | cut -d' ' -f1)
  perl -0pi -e "$subst" "$SCR/repo/$file"
  after=$(sha1sum "$SCR/repo/$file" | cut -d' ' -f1)
  if [ "$before" = "$after" ]; then echo "MUTANT-NOT-APPLIED $name"; fail=1; continue; fi
  if ! (cd "$SCR/repo" && GOFLAGS=-mod=mod GOPROXY=off GOSUMDB=off GOTOOLCHAIN=local go build ./... 2>/dev/null); then echo "MUTANT-DOES-NOT-COMPILE $name"; fail=1; continue; fi
  out=$(VF_NOCACHE=1 VF_REPO="$SCR/repo" ../bin/vf run --funcs "$funcs" --timeout 5 2>&1)
  if echo "$out" | grep -E "^(FAIL|UNBOUND)" | grep -qF -- "$expect"; then
    echo "killed   $name   ($expect)"
  else
    echo "SURVIVED $name   expected $expect"; echo "$out" | grep -E "^(FAIL|UNBOUND)" | head -5
    fail=1
  fi
done < mutants.tsv
echo "mutants=$n"
exit $fail
